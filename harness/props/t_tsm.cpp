// Property binary: target/source trees. Sequential TSM executor against the model (C09) and, with
// -DRT=1|2|3, the OpenMP / Specx / StarPU TSM executors under generated schedules (C03, C09).
#ifndef DIM
#define DIM 3
#endif
#ifndef RT
#define RT 0
#endif
#ifndef NX
#define NX 1
#endif

#include "fmmharness.hpp"
#include "core/tbftreetsm.hpp"
#include "algorithms/sequential/tbfalgorithmtsm.hpp"
#include "../runtimes/sched.hpp"

#if RT == 1
#include "algorithms/openmp/tbfopenmpalgorithmtsm.hpp"
#elif RT == 2
#include "algorithms/smspecx/tbfsmspecxalgorithmtsm.hpp"
#elif RT == 3
#include "algorithms/smstarpu/tbfsmstarpualgorithmtsm.hpp"
#endif

using Real = double;
constexpr int Dim = DIM;
constexpr long NbData = Dim + NX;
using Config = TbfSpacialConfiguration<Real, Dim>;
using SI = TbfMortonSpaceIndex<Dim, Config, false>;
using TreeBase = TbfTreeTsm<Real, Real, NbData, uint64_t, gf::NEVAL + 1, gf::Val, gf::Val, SI>;
// the source and target trees are protected members: a derived class may name them (used for the structure / construction oracles)
struct Tree : public TreeBase { using TreeBase::TreeBase; auto& sourceTree(){ return this->treeSource; } auto& targetTree(){ return this->treeTarget; } };
using Kernel = probe::GfKernel<Real, SI>;
using SeqAlgo = TbfAlgorithmTsm<Real, Kernel, SI>;
#if RT == 1
using TaskAlgo = TbfOpenmpAlgorithmTsm<Real, Kernel, SI>;
static const char* RtName = "openmp-tsm";
#elif RT == 2
using TaskAlgo = TbfSmSpecxAlgorithmTsm<Real, Kernel, SI>;
static const char* RtName = "specx-tsm";
#elif RT == 3
using TaskAlgo = TbfSmStarpuAlgorithmTsm<Real, Kernel, SI>;
static const char* RtName = "starpu-tsm";
#else
static const char* RtName = "sequential-tsm";
#endif

namespace {
using rm::Coord;

int currentTask(){ return msched::global().currentTask; }

struct TreeValues {
    std::map<std::pair<int, Coord>, gf::Val> mult, local;
    std::vector<gf::Val> targets;
};
TreeValues collect(Tree& tree, size_t nbTargets){
    TreeValues tv; tv.targets.assign(nbTargets, gf::zero());
    tree.applyToAllCellsSource([&](const long level, auto&& header, auto&& m, auto&& /*l*/){
        tv.mult[std::make_pair(int(level), fh::hcoord<decltype(header), Dim>(header))] = m->get();
    });
    tree.applyToAllCellsTarget([&](const long level, auto&& header, auto&& /*m*/, auto&& l){
        tv.local[std::make_pair(int(level), fh::hcoord<decltype(header), Dim>(header))] = l->get();
    });
    tree.applyToAllLeavesTarget([&](auto&& header, const long int* idx, auto&& /*data*/, auto&& rhs){
        for(long i = 0 ; i < header.nbParticles ; ++i){
            gf::Val v; for(int k = 0 ; k < gf::NEVAL ; ++k) v.v[k] = rhs[size_t(k)][i]; v.cnt = rhs[gf::NEVAL][i];
            if(idx[i] >= 0 && size_t(idx[i]) < nbTargets) tv.targets[size_t(idx[i])] = v;
        }
    });
    return tv;
}

std::unique_ptr<Tree> buildTree(const FmmCase& c, const Config& config, const fh::ParticleInput<Real, NbData>& src, const fh::ParticleInput<Real, NbData>& tgt){
    fh::ScopedBlockEnv env(c.blockSize == -1 ? c.envBlock : 0);
    if(c.blockSize == -1) return std::unique_ptr<Tree>(new Tree(config, src.data, tgt.data));
    return std::unique_ptr<Tree>(new Tree(config, src.data, tgt.data, c.blockSize, c.oneGroupPerParent != 0));
}

// expected multiset of elementary interactions of the target/source algorithm
std::vector<probe::LogEntry> expectedLogTsm(const rm::ModelTree& ms, const rm::ModelTree& mtg, int lstop, int flags){
    using namespace probe;
    std::vector<LogEntry> e;
    const int H = ms.H, dim = ms.dim;
    const bool far = H > lstop;
    if((flags & 2) && far) for(const auto& kv : ms.leaves) e.push_back(LogEntry{OpP2M, long(H - 1), kv.first, kv.first, 0});
    if((flags & 32) && far) for(const auto& kv : mtg.leaves) e.push_back(LogEntry{OpL2P, long(H - 1), kv.first, kv.first, 0});
    for(int l = std::max(lstop, 0) ; l <= H - 2 ; ++l){
        if(flags & 4) for(const Coord& ch : ms.cells[size_t(l + 1)]){
            Coord off{{0,0,0,0}}; for(int d = 0 ; d < dim ; ++d) off[size_t(d)] = ch[size_t(d)] & 1;
            e.push_back(LogEntry{OpM2M, long(l), rm::shr(ch, 1), ch, rm::childCode(dim, off)});
        }
        if(flags & 16) for(const Coord& ch : mtg.cells[size_t(l + 1)]){
            Coord off{{0,0,0,0}}; for(int d = 0 ; d < dim ; ++d) off[size_t(d)] = ch[size_t(d)] & 1;
            e.push_back(LogEntry{OpL2L, long(l), rm::shr(ch, 1), ch, rm::childCode(dim, off)});
        }
    }
    if(flags & 8) for(int l = std::max(lstop, 0) ; l <= H - 1 ; ++l)
        for(const Coord& T : mtg.cells[size_t(l)]) for(const rm::Pair& p : rm::transferList(dim, l, T, false))
            if(ms.has(l, p.src)) e.push_back(LogEntry{OpM2L, long(l), T, p.src, rm::transferCode(dim, p.off)});
    if(flags & 1) for(const auto& kv : mtg.leaves){
        for(const rm::Pair& p : rm::neighborList(dim, H - 1, kv.first, false))
            if(ms.leaves.count(p.src)) e.push_back(LogEntry{OpP2PTsm, long(H - 1), kv.first, p.src, rm::neighborCode(dim, p.off)});
        if(ms.leaves.count(kv.first)) e.push_back(LogEntry{OpP2PTsm, long(H - 1), kv.first, kv.first, rm::neighborCode(dim, Coord{{0,0,0,0}})});
    }
    std::sort(e.begin(), e.end());
    return e;
}

std::string propTsm(const FmmCase& c, const std::string& prop){
    if(c.dim != Dim) return "SKIP wrong dimension";
    if(!c.tsm) return "SKIP not a target/source case";
    hc::Stats& st = hc::stats();
    rm::ModelTree ms, mtg; ms.buildFrom(c, c.pos); mtg.buildFrom(c, c.tpos);
    if(!ms.allInBox || !ms.allSound || !mtg.allInBox || !mtg.allSound) return "SKIP generator soundness";
    if(c.pos.empty() || c.tpos.empty()) return "SKIP empty side";
    const int H = c.height;
    const int lstop = (c.lstop == -100) ? 2 : std::max(0, c.lstop);
    const Config config = fh::makeConfig<Real, Dim>(c);
    auto inS = fh::makeInput<Real, Real, NbData>(c, c.pos, c.extra, Dim, c.nextra);
    auto inT = fh::makeInput<Real, Real, NbData>(c, c.tpos, c.textra, Dim, c.nextra);
    std::vector<int> calls = c.history; if(calls.empty()) calls.push_back(63);
    int done = 0; for(int f : calls) done |= f;

    auto setupCtx = [&](probe::Ctx& ctx){
        ctx.dim = Dim; ctx.height = H; ctx.base = H - 1; ctx.tagSrc = 0; ctx.tagTgt = 1;
        ctx.leafOf[0] = &ms.leafOf; ctx.leafOf[1] = &mtg.leafOf; ctx.rows[0] = &inS.rows; ctx.rows[1] = &inT.rows;
    };

    auto treeA = buildTree(c, config, inS, inT);
    std::string perCallErr;
    const bool ogpp = (c.blockSize == -1) ? false : (c.oneGroupPerParent != 0);
    (void)ogpp;
    probe::Ctx ctxA(c.salt); setupCtx(ctxA);
    treeA->applyToAllCellsSource([&](const long level, auto&& header, auto&& m, auto&&){ ctxA.multAddr[&(m->get())] = probe::CellId{int(level), fh::hcoord<decltype(header), Dim>(header)}; });
    treeA->applyToAllCellsTarget([&](const long level, auto&& header, auto&&, auto&& l){ ctxA.localAddr[&(l->get())] = probe::CellId{int(level), fh::hcoord<decltype(header), Dim>(header)}; });
    std::vector<unsigned char> srcSymbBefore;
    for(const auto& g : treeA->getParticleGroupsSource()){ const unsigned char* p = g.getDataPtr(); srcSymbBefore.insert(srcSymbBefore.end(), p, p + g.getDataSize()); }
    {
        std::unique_ptr<SeqAlgo> seq;
        if(c.lstop == -100) seq.reset(new SeqAlgo(config, Kernel(&ctxA))); else seq.reset(new SeqAlgo(config, Kernel(&ctxA), long(c.lstop)));
        for(int fl : calls){
            const size_t from = ctxA.log.size();
            seq->execute(*treeA, fl);
            if(perCallErr.empty()) perCallErr = fh::checkOpsOfCall(ctxA.log, from, fl, lstop, Dim);
        }
    }
    std::vector<unsigned char> srcSymbAfter;
    for(const auto& g : treeA->getParticleGroupsSource()){ const unsigned char* p = g.getDataPtr(); srcSymbAfter.insert(srcSymbAfter.end(), p, p + g.getDataSize()); }
    const TreeValues ref = collect(*treeA, mtg.leafOf.size());

    // ---- sequential TSM executor against the model
    rm::Expect ex(ctxA.P, ms, false, 0);
    std::string seqErr;
    {
        const bool farDone = (done & 62) == 62, nearDone = (done & 1) != 0;
        std::vector<char> seen(mtg.leafOf.size(), 0);
        std::map<Coord, gf::Val> perLeaf;
        treeA->applyToAllLeavesTarget([&](auto&& header, const long int* idx, auto&& /*data*/, auto&& rhs){
            if(!seqErr.empty()) return;
            for(long i = 0 ; i < header.nbParticles ; ++i){
                const long id = idx[i];
                if(id < 0 || id >= long(seen.size()) || seen[size_t(id)]){ seqErr = "target particle index invalid or stored twice"; return; }
                seen[size_t(id)] = 1;
                const Coord T = mtg.leafOf[size_t(id)];
                auto it = perLeaf.find(T);
                if(it == perLeaf.end()){
                    gf::Val v = gf::zero();
                    if(farDone && H > lstop) gf::addPlain(v, ex.farAtLeaf(T, lstop));
                    if(nearDone) gf::addPlain(v, ex.nearField(T, -1, true));
                    it = perLeaf.emplace(T, v).first;
                }
                gf::Val got; for(int k = 0 ; k < gf::NEVAL ; ++k) got.v[k] = rhs[size_t(k)][i]; got.cnt = rhs[gf::NEVAL][i];
                if(got != it->second){
                    std::ostringstream os; os << "target particle " << id << " in leaf " << fh::coordStr(T, Dim) << " accumulated " << fh::valStr(got) << " expected " << fh::valStr(it->second)
                                              << " (sources seen " << got.cnt << ", expected " << it->second.cnt << " of " << ms.leafOf.size() << ")";
                    seqErr = os.str(); return;
                }
            }
        });
        if(seqErr.empty()) for(size_t i = 0 ; i < seen.size() ; ++i) if(!seen[i]){ seqErr = "target particle missing from the tree"; break; }
        // full run with the default working level: every source exactly once
        if(seqErr.empty() && farDone && nearDone && lstop <= 2){
            const Coord T = mtg.leaves.begin()->first;
            gf::Val direct = ex.allSources(T, Coord{{0,0,0,0}}, -1), viaLists = gf::zero();
            if(H > lstop) gf::addPlain(viaLists, ex.farAtLeaf(T, lstop));
            gf::addPlain(viaLists, ex.nearField(T, -1, true));
            if(direct != viaLists) return "MODEL-ERROR partition identity violated by the reference model (tsm)";
        }
        // cells
        if(seqErr.empty()){
            const bool working = H > lstop;
            for(const auto& kv : ref.mult){
                if(!ms.has(kv.first.first, kv.first.second)){ seqErr = "source tree has a cell the model does not"; break; }
                const gf::Val e = (working && kv.first.first >= lstop && (done & 6) == 6) ? ex.multipole(kv.first.first, kv.first.second) : gf::zero();
                if(kv.second != e){ seqErr = "multipole of source cell L" + std::to_string(kv.first.first) + fh::coordStr(kv.first.second, Dim) + " is " + fh::valStr(kv.second) + " expected " + fh::valStr(e); break; }
            }
            size_t nbS = 0; for(const auto& s : ms.cells) nbS += s.size();
            if(seqErr.empty() && nbS != ref.mult.size()) seqErr = "source tree cell count differs from the model";
        }
        if(seqErr.empty()){
            const bool working = H > lstop;
            for(const auto& kv : ref.local){
                if(!mtg.has(kv.first.first, kv.first.second)){ seqErr = "target tree has a cell the model does not"; break; }
                const gf::Val e = (working && kv.first.first >= lstop && (done & 30) == 30) ? ex.local(kv.first.first, kv.first.second, lstop) : gf::zero();
                if(kv.second != e){ seqErr = "local of target cell L" + std::to_string(kv.first.first) + fh::coordStr(kv.first.second, Dim) + " is " + fh::valStr(kv.second) + " expected " + fh::valStr(e); break; }
            }
            size_t nbT = 0; for(const auto& s : mtg.cells) nbT += s.size();
            if(seqErr.empty() && nbT != ref.local.size()) seqErr = "target tree cell count differs from the model";
        }
        if(seqErr.empty()){
            std::vector<probe::LogEntry> got = ctxA.log; std::sort(got.begin(), got.end());
            seqErr = fh::diffLogs(got, expectedLogTsm(ms, mtg, lstop, done), Dim);
            if(!seqErr.empty()) seqErr = "interactions: " + seqErr;
        }
        if(seqErr.empty() && srcSymbBefore != srcSymbAfter) seqErr = "execution modified the source particles";
        if(seqErr.empty() && !ctxA.errors.empty() && (prop == "C02" || prop == "C09")) seqErr = "arguments: " + ctxA.errors.front();
    }
    if(seqErr.empty() && !perCallErr.empty()) seqErr = perCallErr;
    const bool wantSeq = (prop == "C09" || prop == "C02");
    if(!seqErr.empty()){
        if(wantSeq || RT == 0) return std::string("sequential-tsm: ") + seqErr;
        st.cls("other-oracle:sequential-tsm");
    }

#if RT != 0
    // ---- task executor under the generated schedule, differential with the sequential executor
    auto treeB = buildTree(c, config, inS, inT);
    probe::Ctx ctxB(c.salt); setupCtx(ctxB);
    treeB->applyToAllCellsSource([&](const long level, auto&& header, auto&& m, auto&&){ ctxB.multAddr[&(m->get())] = probe::CellId{int(level), fh::hcoord<decltype(header), Dim>(header)}; });
    treeB->applyToAllCellsTarget([&](const long level, auto&& header, auto&&, auto&& l){ ctxB.localAddr[&(l->get())] = probe::CellId{int(level), fh::hcoord<decltype(header), Dim>(header)}; });
    ctxB.currentTaskFn = &currentTask;
    msched::Scheduler& S = msched::global();
    long totalTasks = 0, totalDeferred = 0, conflictsChecked = 0; std::set<int> workers;
    std::string err;
    {
        std::unique_ptr<TaskAlgo> algo;
        Kernel::defaultCtx() = &ctxB;
        // the runtime may have another number of workers while the executor object is built (omp_set_num_threads, Specx team size)
        if(RT != 3 && c.threadsCtor > 0) S.reset(c.threadsCtor, c.sched);
        if(!(RT != 3 && c.threadsCtor > 0)) S.reset(c.threads, c.sched);
        if(c.variant == 1){ if(c.lstop == -100) algo.reset(new TaskAlgo(config)); else algo.reset(new TaskAlgo(config, long(c.lstop))); }
        else if(c.lstop == -100) algo.reset(new TaskAlgo(config, Kernel(&ctxB))); else algo.reset(new TaskAlgo(config, Kernel(&ctxB), long(c.lstop)));
        for(size_t ic = 0 ; ic < calls.size() && err.empty() ; ++ic){
            std::vector<uint32_t> s2 = c.sched; if(!s2.empty()) s2.push_back(uint32_t(ic) * 2654435761u);
            S.reset(c.threads, s2);
            ctxB.accesses.clear(); ctxB.kernelUse.clear();
            const size_t logFrom = ctxB.log.size();
            algo->execute(*treeB, calls[ic]);
            for(const auto& t : S.tasks) if(!t.done){ err = "execute() returned while a submitted task had not run"; break; }
            if(err.empty()) err = fh::checkOpsOfCall(ctxB.log, logFrom, calls[ic], lstop, Dim);
            totalTasks += long(S.tasks.size()); totalDeferred += S.deferred;
            for(int w : S.workersUsed) workers.insert(w);
            if(err.empty()){
                const auto anc = S.closure();
                std::map<const void*, std::map<int, bool>> byAddr;
                for(const auto& a : ctxB.accesses){ bool& w = byAddr[a.addr][a.task]; w = w || a.write; }
                for(const auto& kv : byAddr){
                    std::vector<std::pair<int, bool>> v(kv.second.begin(), kv.second.end());
                    for(size_t i = 0 ; i < v.size() && err.empty() ; ++i) for(size_t j = i + 1 ; j < v.size() ; ++j){
                        if(!v[i].second && !v[j].second) continue;
                        conflictsChecked += 1;
                        const int a = v[i].first, b = v[j].first;
                        const bool ordered = (anc[size_t(b)][size_t(a) / 64] >> (size_t(a) % 64)) & 1;
                        if(!ordered && !S.shareCommuteAddress(a, b)){
                            err = "tasks " + std::to_string(a) + " and " + std::to_string(b) + " access the same cell/leaf data with a writer, but the declared dependencies neither order them nor make them mutually exclusive"; break; }
                    }
                    if(!err.empty()) break;
                }
            }
            if(err.empty()){
                std::vector<int> copyOfWorker;
                algo->applyToAllKernels([&](const auto& k){ copyOfWorker.push_back(k.getCopyId()); });
                for(const auto& ku : ctxB.kernelUse){
                    const int w = S.tasks[size_t(ku.first)].worker;
                    if(w < 0 || size_t(w) >= copyOfWorker.size() || copyOfWorker[size_t(w)] != ku.second){ err = "task " + std::to_string(ku.first) + " ran on worker " + std::to_string(w) + " but used the kernel object of another worker"; break; }
                }
            }
        }
    }
    if(!err.empty()) return std::string(RtName) + ": " + err;
    const TreeValues got = collect(*treeB, mtg.leafOf.size());
    if(got.mult != ref.mult){
        for(const auto& kv : ref.mult){ auto it = got.mult.find(kv.first); if(it == got.mult.end() || it->second != kv.second) return std::string(RtName) + ": multipole of source cell L" + std::to_string(kv.first.first) + fh::coordStr(kv.first.second, Dim) + " differs from the sequential executor"; }
        return std::string(RtName) + ": source cells differ from the sequential executor";
    }
    if(got.local != ref.local){
        for(const auto& kv : ref.local){ auto it = got.local.find(kv.first); if(it == got.local.end() || it->second != kv.second) return std::string(RtName) + ": local of target cell L" + std::to_string(kv.first.first) + fh::coordStr(kv.first.second, Dim) + " differs from the sequential executor"; }
        return std::string(RtName) + ": target cells differ from the sequential executor";
    }
    long wrong = 0; size_t firstWrong = 0;
    for(size_t i = 0 ; i < ref.targets.size() ; ++i) if(ref.targets[i] != got.targets[i]){ if(!wrong) firstWrong = i; wrong += 1; }
    if(wrong) return std::string(RtName) + ": " + std::to_string(wrong) + " of " + std::to_string(ref.targets.size()) + " target particles differ from the sequential executor (first: " + std::to_string(firstWrong) + " " + fh::valStr(got.targets[firstWrong]) + " vs " + fh::valStr(ref.targets[firstWrong]) + ")";
    {
        std::vector<probe::LogEntry> la = ctxA.log, lb = ctxB.log; std::sort(la.begin(), la.end()); std::sort(lb.begin(), lb.end());
        const std::string d = fh::diffLogs(lb, la, Dim);
        if(!d.empty()) return std::string(RtName) + ": interactions differ from the sequential executor: " + d;
    }
    if(!ctxB.errors.empty() && (prop == "C02" || prop == "C09")) return std::string(RtName) + ": arguments: " + ctxB.errors.front();
    st.cls(std::string("strategy=") + std::to_string(c.sched.empty() ? 0 : int(c.sched[0] % 8)));
    st.cls("tasks", totalTasks); st.cls("tasks-deferred-past-creation", totalDeferred); st.cls("conflicting-access-pairs-checked", conflictsChecked);
    st.cls(c.variant == 1 ? "ctor:configuration-only" : "ctor:kernel-given");
#endif

    // ---- C13 / C07 / C06 on target/source trees: structure and construction of both trees, then move / rebuild / execute cycles
    // (C09 as well: "after a full execution" also holds for the executions that follow a move + rebuild with the SAME executor object)
    if(prop == "C13" || prop == "C07" || prop == "C06" || (prop == "C09" && !c.cycles.empty())){
        FmmCase cc = c;
        auto treeR = buildTree(cc, config, inS, inT);
        const long bsUsedS = treeR->getNbElementsPerGroupSource(), bsUsedT = treeR->getNbElementsPerGroupTarget();
        rm::ModelTree rs = ms, rt = mtg;
        auto rowsS = inS.rows, rowsT = inT.rows;
        auto structural = [&](const char* when) -> std::string {
            std::string e = fh::checkStructure<Dim>(treeR->sourceTree(), rs, bsUsedS, ogpp);
            if(!e.empty()) return std::string(when) + " source tree structure: " + e;
            e = fh::checkStructure<Dim>(treeR->targetTree(), rt, bsUsedT, ogpp);
            if(!e.empty()) return std::string(when) + " target tree structure: " + e;
            e = fh::checkConstruction<Dim>(treeR->sourceTree(), rs, rowsS, false);
            if(!e.empty()) return std::string(when) + " source tree: " + e;
            e = fh::checkConstruction<Dim>(treeR->targetTree(), rt, rowsT, false);
            if(!e.empty()) return std::string(when) + " target tree: " + e;
            return "";
        };
        std::string e = structural("after construction");
        if(!e.empty()) return e;
        std::vector<gf::Val> acc(cc.tpos.size(), gf::zero());
        probe::Ctx ctxR(c.salt); 
        std::unique_ptr<SeqAlgo> seqR;
        auto executeR = [&]() -> std::string {
            ctxR.reset(); ctxR.multAddr.clear(); ctxR.localAddr.clear();
            ctxR.dim = Dim; ctxR.height = H; ctxR.base = H - 1; ctxR.tagSrc = 0; ctxR.tagTgt = 1;
            ctxR.leafOf[0] = &rs.leafOf; ctxR.leafOf[1] = &rt.leafOf; ctxR.rows[0] = &rowsS; ctxR.rows[1] = &rowsT;
            if(!seqR) seqR.reset(new SeqAlgo(config, Kernel(&ctxR)));    // one executor object for the whole move / rebuild / execute history
            seqR->execute(*treeR);
            if(!ctxR.errors.empty()) return "arguments after rebuild: " + ctxR.errors.front();
            rm::Expect exr(ctxR.P, rs, false, 0);
            std::map<Coord, gf::Val> perLeaf;
            for(size_t i = 0 ; i < acc.size() ; ++i){
                const Coord T = rt.leafOf[i];
                auto it = perLeaf.find(T);
                if(it == perLeaf.end()){ gf::Val v = gf::zero(); if(H > 2) gf::addPlain(v, exr.farAtLeaf(T, 2)); gf::addPlain(v, exr.nearField(T, -1, true)); it = perLeaf.emplace(T, v).first; }
                gf::addPlain(acc[i], it->second);
            }
            return "";
        };
        auto checkAcc = [&](const char* when) -> std::string {
            long nb = 0;
            std::string r = fh::checkParticleValues<Dim>(treeR->targetTree(), rt, [&](const Coord&, long id){ return acc[size_t(id)]; }, nb);
            return r.empty() ? r : std::string(when) + ": " + r;
        };
        // results are user-visible and mutable: add a particle-specific amount to every result column between executions, so that no
        // column (in particular the contribution count, equal for all targets after a full execution) is constant over the particles
        long nbPerturb = 0;
        auto perturb = [&](){
            nbPerturb += 1;
            treeR->applyToAllLeavesTarget([&](auto&& header, const long int* idx, auto&& /*data*/, auto&& rhs){
                for(long i = 0 ; i < header.nbParticles ; ++i){
                    const size_t id = size_t(idx[i]);
                    gf::Val add;
                    for(int k = 0 ; k < gf::NEVAL ; ++k) add.v[k] = gf::splitmix(c.salt * 31 + uint64_t(id) * 7 + uint64_t(k) + uint64_t(nbPerturb) * 1000003u) % gf::P;
                    add.cnt = long(gf::splitmix(c.salt + uint64_t(id) * 13 + uint64_t(nbPerturb)) % 1000) + 1;
                    for(int k = 0 ; k < gf::NEVAL ; ++k) rhs[size_t(k)][i] = gf::add(uint64_t(rhs[size_t(k)][i]), add.v[k]);
                    rhs[gf::NEVAL][i] += add.cnt;
                    gf::addPlain(acc[id], add);
                }
            });
        };
        e = executeR(); if(!e.empty()) return e;
        e = checkAcc("after the first execution"); if(!e.empty()) return e;
        perturb();
        long nbRebuilds = 0;
        for(const auto& cyc : cc.cycles){
            std::map<long, Pos4> mv[2];
            for(const MoveOp& m : cyc){ auto& base = m.set ? cc.tpos : cc.pos; if(m.index >= 0 && size_t(m.index) < base.size()){ mv[m.set ? 1 : 0][m.index] = m.pos; base[size_t(m.index)] = m.pos; } }
            rm::ModelTree ns, nt; ns.buildFrom(cc, cc.pos); nt.buildFrom(cc, cc.tpos);
            if(!ns.allInBox || !ns.allSound || !nt.allInBox || !nt.allSound) return "SKIP generator soundness (moved position)";
            treeR->applyToAllLeavesSource([&](auto&& header, const long int* idx, auto&& data, auto&&){ for(long i = 0 ; i < header.nbParticles ; ++i){ auto it = mv[0].find(idx[i]); if(it != mv[0].end()) for(int d = 0 ; d < Dim ; ++d) data[size_t(d)][i] = Real(it->second[size_t(d)]); } });
            treeR->applyToAllLeavesTarget([&](auto&& header, const long int* idx, auto&& data, auto&&){ for(long i = 0 ; i < header.nbParticles ; ++i){ auto it = mv[1].find(idx[i]); if(it != mv[1].end()) for(int d = 0 ; d < Dim ; ++d) data[size_t(d)][i] = Real(it->second[size_t(d)]); } });
            for(const auto& kv : mv[0]) for(int d = 0 ; d < Dim ; ++d) rowsS[size_t(kv.first)][size_t(d)] = double(Real(kv.second[size_t(d)]));
            for(const auto& kv : mv[1]) for(int d = 0 ; d < Dim ; ++d) rowsT[size_t(kv.first)][size_t(d)] = double(Real(kv.second[size_t(d)]));
            rs = ns; rt = nt;
            treeR->rebuild(); nbRebuilds += 1;
            e = structural("after rebuild"); if(!e.empty()) return e;
            e = checkAcc("results preserved by rebuild"); if(!e.empty()) return e;
            bool zero = true;
            treeR->applyToAllCellsSource([&](const long, auto&&, auto&& m, auto&&){ if(!gf::isZero(m->get())) zero = false; });
            treeR->applyToAllCellsTarget([&](const long, auto&&, auto&&, auto&& l){ if(!gf::isZero(l->get())) zero = false; });
            if(!zero) return "cell expansions are not reset to zero by rebuild (target/source tree)";
            e = executeR(); if(!e.empty()) return e;
            e = checkAcc("after rebuild + execution"); if(!e.empty()) return e;
            perturb();
        }
        st.cls("tsm-rebuilds", nbRebuilds);
    }

    // ---- classification
    st.cls("H=" + std::to_string(H));
    bool tgtOnly = false, srcOnly = false;
    for(int l = 0 ; l < H ; ++l){
        for(const Coord& x : mtg.cells[size_t(l)]) if(!ms.has(l, x)) tgtOnly = true;
        for(const Coord& x : ms.cells[size_t(l)]) if(!mtg.has(l, x)) srcOnly = true;
    }
    if(tgtOnly) st.cls("target-cell-without-source-cell");
    if(srcOnly) st.cls("source-cell-without-target-cell");
    if(c.pos.size() == 1 || c.tpos.size() == 1) st.cls("one-side-single-particle");
    if(ms.leaves.size() == 1 || mtg.leaves.size() == 1) st.cls("one-side-single-leaf");
    if(c.pos == c.tpos) st.cls("identical-positions");
    bool nontrivial = tgtOnly && srcOnly && ctxA.elems[probe::OpM2L] > 0 && ctxA.elems[probe::OpP2PTsm] > 0;
#if RT != 0
    if(prop == "C03") nontrivial = totalTasks >= 20 && totalDeferred >= 1 && workers.size() >= 2;
#endif
    if(nontrivial) st.noteNontrivial(hc::hashCase(c), c);
    return "";
}

pbt::GenCfg cfgFor(const std::string& prop, const hc::Args& a){
    pbt::GenCfg g;
    g.dim = Dim; g.real = 0; g.tsm = true;
    static const int hmax[5] = {0, 8, 6, 5, 4};
    g.maxH = int(a.getInt("maxh", hmax[Dim]));
    g.maxN = int(a.getInt("maxn", 120));
    g.maxNextra = NX;
    g.lstops = true;
#if RT != 0
    g.schedules = true; g.executors = 1 << RT; g.variants = 2; g.varyThreads = (RT != 3);
#endif
    if(prop == "C12") g.histories = true;
    if(prop == "C15" || prop == "C09" || prop == "C06" || prop == "C07" || prop == "C13") g.emptySets = true;
    if(prop == "C09"){ g.histories = true; g.historyOneIn = 4; }   // a full execution may be issued as several execute() calls (README, flag list)
    if(prop == "C13"){ g.cycles = true; g.maxCycles = 3; g.lstops = false; }
    if(prop == "C09" && RT == 0 && a.getInt("cycles", 0)){ g.cycles = true; g.maxCycles = 2; g.lstops = false; g.histories = false; }
    return g;
}

} // namespace

#ifdef FUZZ_TARGET
#include "../model/bytes.hpp"
extern "C" int LLVMFuzzerTestOneInput(const uint8_t* data, size_t size){
    static const std::string prop = getenv("VERIF_FUZZ_PROP") ? getenv("VERIF_FUZZ_PROP") : "C09";
    static const int hmaxF[5] = {0, 7, 5, 4, 3};
    const FmmCase c = fz::decode(data, size, Dim, hmaxF[Dim], true);
    return hc::fuzzOne(c, [&](const FmmCase& x){ return propTsm(x, prop); });
}
#else
int main(int argc, char** argv){
    hc::Args a = hc::parseArgs(argc, argv);
    if(a.prop.empty()){ std::cerr << "usage: --prop Cxx ...\n"; return 2; }
    const std::string prop = a.prop;
    return hc::runMain(a, cfgFor(prop, a), [&](const FmmCase& c){ return propTsm(c, prop); });
}
#endif
