// Property binary: task-based executors under generated schedules (mock runtimes own the schedule).
// -DRT=1 OpenMP (GOMP ABI mock, compiled with -fopenmp, linked without libgomp)
// -DRT=2 Specx (API mock)   -DRT=3 StarPU (API mock)
// Serves C03 (and the task-executor parts of C12 / C18).
#ifndef DIM
#define DIM 3
#endif
#ifndef RT
#define RT 1
#endif
#ifndef NX
#define NX 0
#endif
#ifndef REALOMP
#define REALOMP 0        // 1: linked with the real libgomp (a sample of real, truly parallel schedules; no schedule control, no DAG)
#endif

#include "fmmharness.hpp"
#include "../runtimes/sched.hpp"

#if RT == 1
#include "algorithms/openmp/tbfopenmpalgorithm.hpp"
#elif RT == 2
#include "algorithms/smspecx/tbfsmspecxalgorithm.hpp"
#elif RT == 3
#include "algorithms/smstarpu/tbfsmstarpualgorithm.hpp"
#endif

using Real = double;
constexpr int Dim = DIM;
constexpr long NbData = Dim + NX;
using Config = TbfSpacialConfiguration<Real, Dim>;
using SI = TbfMortonSpaceIndex<Dim, Config, false>;
using Tree = TbfTree<Real, Real, NbData, uint64_t, gf::NEVAL + 1, gf::Val, gf::Val, SI>;
using Kernel = probe::GfKernel<Real, SI>;
using SeqAlgo = TbfAlgorithm<Real, Kernel, SI>;
#if RT == 1
using TaskAlgo = TbfOpenmpAlgorithm<Real, Kernel, SI>;
static const char* RtName = "openmp";
#elif RT == 2
using TaskAlgo = TbfSmSpecxAlgorithm<Real, Kernel, SI>;
static const char* RtName = "specx";
#elif RT == 3
using TaskAlgo = TbfSmStarpuAlgorithm<Real, Kernel, SI>;
static const char* RtName = "starpu";
#endif

namespace {
using rm::Coord;

int currentTask(){ return msched::global().currentTask; }
#if REALOMP
extern "C" void omp_set_num_threads(int);
#endif

struct TreeValues {
    std::map<std::pair<int, Coord>, std::pair<gf::Val, gf::Val>> cells;
    std::vector<gf::Val> particles;
};
TreeValues collect(Tree& tree, size_t nbParticles){
    TreeValues tv; tv.particles.assign(nbParticles, gf::zero());
    tree.applyToAllCells([&](const long level, auto&& header, auto&& m, auto&& l){
        tv.cells[std::make_pair(int(level), fh::hcoord<decltype(header), Dim>(header))] = std::make_pair(m->get(), l->get());
    });
    tree.applyToAllLeaves([&](auto&& header, const long int* idx, auto&& /*data*/, auto&& rhs){
        for(long i = 0 ; i < header.nbParticles ; ++i){
            gf::Val v; for(int k = 0 ; k < gf::NEVAL ; ++k) v.v[k] = rhs[size_t(k)][i]; v.cnt = rhs[gf::NEVAL][i];
            if(idx[i] >= 0 && size_t(idx[i]) < nbParticles) tv.particles[size_t(idx[i])] = v;
        }
    });
    return tv;
}

std::unique_ptr<Tree> buildTree(const FmmCase& c, const Config& config, const fh::ParticleInput<Real, NbData>& in){
    fh::ScopedBlockEnv env(c.blockSize == -1 ? c.envBlock : 0);
    if(c.blockSize == -1) return std::unique_ptr<Tree>(new Tree(config, in.data));
    return std::unique_ptr<Tree>(new Tree(config, in.data, c.blockSize, c.oneGroupPerParent != 0));
}

std::string propSched(const FmmCase& c, const std::string& prop){
    if(c.dim != Dim) return "SKIP wrong dimension";
    hc::Stats& st = hc::stats();
    rm::ModelTree mt; mt.buildFrom(c, c.pos);
    if(!mt.allInBox || !mt.allSound) return "SKIP generator soundness";
    const int H = c.height;
    const int lstop = (c.lstop == -100) ? 2 : std::max(0, c.lstop);
    const Config config = fh::makeConfig<Real, Dim>(c);
    auto in = fh::makeInput<Real, Real, NbData>(c, c.pos, c.extra, Dim, c.nextra);

    std::vector<int> calls = c.history;
    if(calls.empty()) calls.push_back(63);

    // reference: the sequential executor on an identically built tree
    auto treeA = buildTree(c, config, in);
    probe::Ctx ctxA(c.salt);
    ctxA.dim = Dim; ctxA.height = H; ctxA.base = H - 1; ctxA.logging = true;
    {
        std::unique_ptr<SeqAlgo> seq;
        if(c.lstop == -100) seq.reset(new SeqAlgo(config, Kernel(&ctxA))); else seq.reset(new SeqAlgo(config, Kernel(&ctxA), long(c.lstop)));
        for(int fl : calls) seq->execute(*treeA, fl);
    }
    const TreeValues ref = collect(*treeA, mt.leafOf.size());

    // task executor under the generated schedule
    auto treeB = buildTree(c, config, in);
    probe::Ctx ctxB(c.salt);
    ctxB.dim = Dim; ctxB.height = H; ctxB.base = H - 1; ctxB.logging = true;
    ctxB.leafOf[0] = &mt.leafOf; ctxB.rows[0] = &in.rows;
    fh::registerCells<Dim>(*treeB, ctxB);
#if REALOMP
    ctxB.threadSafe = true;          // kernel callbacks run concurrently: the probe kernel serialises its bookkeeping, not the executor's work
    omp_set_num_threads(std::max(1, c.threads));
#else
    ctxB.currentTaskFn = &currentTask;
#endif
    msched::Scheduler& S = msched::global();
    S.reset(c.threads, c.sched);
    long totalTasks = 0, totalDeferred = 0, conflictsChecked = 0; std::set<int> workers;
    std::string err;
    {
        std::unique_ptr<TaskAlgo> algo;
        Kernel::defaultCtx() = &ctxB;
        // the runtime may have another number of workers while the executor object is built (omp_set_num_threads, Specx team size)
        if(RT != 3 && c.threadsCtor > 0) S.reset(c.threadsCtor, c.sched);
#if REALOMP
        if(c.threadsCtor > 0) omp_set_num_threads(c.threadsCtor);
#endif
        if(c.variant == 1){
            // documented construction from the configuration only: the executor creates the kernel(s) itself
            if(c.lstop == -100) algo.reset(new TaskAlgo(config)); else algo.reset(new TaskAlgo(config, long(c.lstop)));
        }
        else if(c.lstop == -100) algo.reset(new TaskAlgo(config, Kernel(&ctxB))); else algo.reset(new TaskAlgo(config, Kernel(&ctxB), long(c.lstop)));
        for(size_t ic = 0 ; ic < calls.size() && err.empty() ; ++ic){
            const std::vector<uint32_t> sched = c.sched;
            std::vector<uint32_t> s2 = sched; if(!s2.empty()) s2.push_back(uint32_t(ic) * 2654435761u);
            S.reset(c.threads, s2);
            ctxB.accesses.clear(); ctxB.kernelUse.clear();
#if REALOMP
            omp_set_num_threads(std::max(1, c.threads));
#endif
            const size_t logFrom = ctxB.log.size();
            algo->execute(*treeB, calls[ic]);
            if(err.empty()) err = fh::checkOpsOfCall(ctxB.log, logFrom, calls[ic], lstop, Dim);
            // every submitted task has run when execute() returns
            for(const auto& t : S.tasks) if(!t.done){ err = "execute() returned while a submitted task had not run"; break; }
            totalTasks += long(S.tasks.size()); totalDeferred += S.deferred;
            for(int w : S.workersUsed) workers.insert(w);
            // (2) declared dependencies order (or exclude) every pair of conflicting accesses
            if(err.empty()){
                const auto anc = S.closure();
                std::map<const void*, std::vector<std::pair<int, bool>>> byAddr;
                for(const auto& a : ctxB.accesses) byAddr[a.addr].push_back(std::make_pair(a.task, a.write));
                for(const auto& kv : byAddr){
                    // distinct (task, strongest mode)
                    std::map<int, bool> tm; for(const auto& x : kv.second) tm[x.first] = tm[x.first] || x.second;
                    std::vector<std::pair<int, bool>> v(tm.begin(), tm.end());
                    for(size_t i = 0 ; i < v.size() && err.empty() ; ++i) for(size_t j = i + 1 ; j < v.size() ; ++j){
                        if(!v[i].second && !v[j].second) continue;
                        conflictsChecked += 1;
                        const int a = v[i].first, b = v[j].first;   // a < b (creation order)
                        const bool ordered = (anc[size_t(b)][size_t(a) / 64] >> (size_t(a) % 64)) & 1;
                        if(!ordered && !S.shareCommuteAddress(a, b)){
                            auto itc = ctxB.multAddr.find(kv.first); auto itl = ctxB.localAddr.find(kv.first);
                            std::ostringstream os; os << "tasks " << a << " and " << b << " both access ";
                            if(itc != ctxB.multAddr.end()) os << "the multipole of cell L" << itc->second.level << fh::coordStr(itc->second.c, Dim);
                            else if(itl != ctxB.localAddr.end()) os << "the local of cell L" << itl->second.level << fh::coordStr(itl->second.c, Dim);
                            else os << "the results of one leaf";
                            os << " (" << (v[i].second ? "write" : "read") << "/" << (v[j].second ? "write" : "read") << ") but the declared dependencies neither order them nor make them mutually exclusive";
                            err = os.str(); break;
                        }
                    }
                    if(!err.empty()) break;
                }
            }
            // (4) the kernel object used by a task is the one of the worker that runs it
            if(err.empty()){
                std::vector<int> copyOfWorker;
                algo->applyToAllKernels([&](const auto& k){ copyOfWorker.push_back(k.getCopyId()); });
                for(const auto& ku : ctxB.kernelUse){
                    const int w = S.tasks[size_t(ku.first)].worker;
                    if(w < 0 || size_t(w) >= copyOfWorker.size() || copyOfWorker[size_t(w)] != ku.second){
                        err = "task " + std::to_string(ku.first) + " ran on worker " + std::to_string(w) + " but used the kernel object of another worker"; break; }
                }
            }
        }
    }
    if(!err.empty()) return std::string(RtName) + ": " + err;
    // (1) differential with the sequential executor, bit identical
    const TreeValues got = collect(*treeB, mt.leafOf.size());
    if(got.cells.size() != ref.cells.size()) return std::string(RtName) + ": different set of cells than the sequential run";
    for(const auto& kv : ref.cells){
        auto it = got.cells.find(kv.first);
        if(it == got.cells.end()) return std::string(RtName) + ": cell missing";
        if(it->second.first != kv.second.first) return std::string(RtName) + ": multipole of cell L" + std::to_string(kv.first.first) + fh::coordStr(kv.first.second, Dim) + " differs from the sequential executor: " + fh::valStr(it->second.first) + " vs " + fh::valStr(kv.second.first);
        if(it->second.second != kv.second.second) return std::string(RtName) + ": local of cell L" + std::to_string(kv.first.first) + fh::coordStr(kv.first.second, Dim) + " differs from the sequential executor: " + fh::valStr(it->second.second) + " vs " + fh::valStr(kv.second.second);
    }
    long wrong = 0; size_t firstWrong = 0;
    for(size_t i = 0 ; i < ref.particles.size() ; ++i) if(ref.particles[i] != got.particles[i]){ if(!wrong) firstWrong = i; wrong += 1; }
    if(wrong) return std::string(RtName) + ": " + std::to_string(wrong) + " of " + std::to_string(ref.particles.size()) + " particles differ from the sequential executor (first: particle " + std::to_string(firstWrong) + " " + fh::valStr(got.particles[firstWrong]) + " vs " + fh::valStr(ref.particles[firstWrong]) + ")";
    // same multiset of elementary interactions as the sequential run
    {
        const auto la = fh::normalizedLog(ctxA, mt, false), lb = fh::normalizedLog(ctxB, mt, false);
        const std::string d = fh::diffLogs(lb, la, Dim);
        if(!d.empty()) return std::string(RtName) + ": interactions differ from the sequential executor: " + d;
    }
    if(prop == "C02" && !ctxB.errors.empty()) return std::string(RtName) + ": arguments: " + ctxB.errors.front();
    if(!ctxB.errors.empty()) st.cls("other-oracle:args");

    // classification
    st.cls(std::string("strategy=") + std::to_string(c.sched.empty() ? 0 : int(c.sched[0] % 8)));
    st.cls("threads=" + std::string(c.threads == 1 ? "1" : (c.threads <= 4 ? "2-4" : (c.threads <= 8 ? "5-8" : "9-16"))));
    st.cls("tasks", totalTasks); st.cls("tasks-deferred-past-creation", totalDeferred); st.cls("conflicting-access-pairs-checked", conflictsChecked);
    st.cls("H=" + std::to_string(H));
    st.cls(c.variant == 1 ? "ctor:configuration-only" : "ctor:kernel-given");
    if(calls.size() > 1) st.cls("staged-history");
    bool nontrivial = totalTasks >= 20 && totalDeferred >= 1 && workers.size() >= 2 && (H - 2 - lstop + 1) >= 2;
    if(REALOMP) nontrivial = c.threads >= 2 && (H - 2 - lstop + 1) >= 2 && mt.leaves.size() >= 8;
    if(nontrivial) st.noteNontrivial(hc::hashCase(c), c);
    return "";
}

pbt::GenCfg cfgFor(const std::string& prop, const hc::Args& a){
    pbt::GenCfg g;
    g.dim = Dim; g.real = 0;
    static const int hmax[5] = {0, 8, 6, 5, 4};
    g.maxH = int(a.getInt("maxh", hmax[Dim]));
    g.maxN = int(a.getInt("maxn", 150));
    g.maxNextra = NX;
    g.schedules = true; g.varyThreads = (RT != 3);
    g.executors = 1 << RT;
    g.lstops = true;
    g.variants = 2;
    if(prop == "C12") g.histories = true;
    return g;
}

} // namespace

int main(int argc, char** argv){
    hc::Args a = hc::parseArgs(argc, argv);
    if(a.prop.empty()){ std::cerr << "usage: --prop Cxx ...\n"; return 2; }
    const std::string prop = a.prop;
    return hc::runMain(a, cfgFor(prop, a), [&](const FmmCase& c){ return propSched(c, prop); });
}
