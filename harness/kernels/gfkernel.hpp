// Probe kernel: exactly additive generating-function values (gf.hpp) + recording + argument checks.
// It follows the documented kernel interface (README "Kernel") and decodes position codes by the
// documented conventions only; it never calls back into the library's index classes.
#ifndef VERIF_GFKERNEL_HPP
#define VERIF_GFKERNEL_HPP

#include "../model/gf.hpp"
#include "../model/refmodel.hpp"
#include "utils/tbfperiodicshifter.hpp"

#include <vector>
#include <string>
#include <unordered_map>
#include <mutex>
#include <sstream>
#include <cstring>

namespace probe {

enum Op : int { OpP2M = 0, OpM2M = 1, OpM2L = 2, OpL2L = 3, OpL2P = 4, OpP2P = 5, OpP2PInner = 6, OpP2PTsm = 7, NbOps = 8 };
inline const char* opName(int o){ static const char* n[] = {"P2M","M2M","M2L","L2L","L2P","P2P","P2PInner","P2PTsm"}; return n[o]; }

struct LogEntry {
    int op; long level; rm::Coord tgt; rm::Coord src; long code;
    bool operator<(const LogEntry& o) const {
        if(op != o.op) return op < o.op;
        if(level != o.level) return level < o.level;
        if(tgt != o.tgt) return tgt < o.tgt;
        if(src != o.src) return src < o.src;
        return code < o.code;
    }
    bool operator==(const LogEntry& o) const { return op == o.op && level == o.level && tgt == o.tgt && src == o.src && code == o.code; }
    std::string str(int dim) const {
        std::ostringstream os; os << opName(op) << " L" << level << " tgt(";
        for(int d = 0 ; d < dim ; ++d) os << (d ? "," : "") << tgt[d];
        os << ") src(";
        for(int d = 0 ; d < dim ; ++d) os << (d ? "," : "") << src[d];
        os << ") code " << code; return os.str();
    }
};

struct CellId { int level; rm::Coord c; };

// Shared by every copy of the kernel used in one run.
struct Ctx {
    gf::Params P;
    int dim = 3;
    int height = 1;          // height of the real tree
    int base = 0;            // a cell of level l is 2^(base-l) leaf units wide
    bool periodic = false;
    bool topTree = false;    // kernel used by the periodic top tree (virtual levels)
    const void* shifterIndex = nullptr;   // periodic runs: the space index object (type SpaceIndexType of the kernel) for the check of TbfPeriodicShifter
    double boxWidths[4] = {0, 0, 0, 0};   //   and the box widths in the coordinate type
    int tagSrc = 0;          // weight tag of source particles
    int tagTgt = 0;          // weight tag of target particles (TSM: 1)
    bool logging = true;
    bool checking = true;
    bool hilbert = false;    // ordering with its own (library defined) code conventions: cross-level checks off
    std::vector<LogEntry> log;
    long calls[NbOps] = {0,0,0,0,0,0,0,0};
    long elems[NbOps] = {0,0,0,0,0,0,0,0};
    std::vector<std::string> errors;           // argument-check failures (C02)
    // what the harness knows about the input (set before execution)
    const std::vector<rm::Coord>* leafOf[2] = {nullptr, nullptr};   // model leaf of particle index, per set (0 source/single, 1 target)
    const std::vector<std::vector<double>>* rows[2] = {nullptr, nullptr}; // expected data row of particle index (already converted to DataType, as double)
    std::unordered_map<const void*, CellId> multAddr, localAddr;
    std::vector<gf::Val>* external[2] = {nullptr, nullptr};    // results per particle index when the tree stores no result value
    int copies = 0;
    // per-task access recording (C03): which task touched which object, and how
    struct Access { int task; const void* addr; bool write; };
    int (*currentTaskFn)() = nullptr;
    std::vector<Access> accesses;
    std::vector<std::pair<int,int>> kernelUse;    // (task, kernel copy id)
    void access(const void* a, bool w){ if(currentTaskFn){ const int t = currentTaskFn(); if(t >= 0) accesses.push_back(Access{t, a, w}); } }
    void useKernel(int copyId){ if(currentTaskFn){ const int t = currentTaskFn(); if(t >= 0 && (kernelUse.empty() || kernelUse.back() != std::make_pair(t, copyId))) kernelUse.push_back(std::make_pair(t, copyId)); } }
    std::mutex mtx;
    bool threadSafe = false;

    explicit Ctx(uint64_t salt, bool flat = false) : P(salt, flat){}
    void error(const std::string& e){ if(errors.size() < 20) errors.push_back(e); }
    long width(long level) const { return 1L << (base - level); }
    void reset(){ log.clear(); errors.clear(); accesses.clear(); kernelUse.clear(); for(int i = 0 ; i < NbOps ; ++i){ calls[i] = 0; elems[i] = 0; } }
};

template <class RealType_T, class SpaceIndexType_T>
class GfKernel {
public:
    using RealType = RealType_T;
    using SpaceIndexType = SpaceIndexType_T;
    static constexpr int Dim = int(SpaceIndexType::Dim);
    using Cell = gf::Val;
private:
    Ctx* ctx;
    int copyId;

    struct Guard { Ctx* c; explicit Guard(Ctx* in) : c(in){ if(c->threadSafe) c->mtx.lock(); } ~Guard(){ if(c->threadSafe) c->mtx.unlock(); } };

    // results go to the particle result arrays, or (zero result values per particle, README "mesh elements") to a table
    // indexed by the original particle index
    template <class Rhs>
    void addResult(Rhs& rhs, long i, long particleIndex, int set, const gf::Val& v) const {
        if constexpr(std::tuple_size<typename std::decay<Rhs>::type>::value == 0){
            if(ctx->external[set] && particleIndex >= 0 && size_t(particleIndex) < ctx->external[set]->size()) gf::addPlain((*ctx->external[set])[size_t(particleIndex)], v);
            (void)rhs; (void)i;
        }
        else{
            for(int k = 0 ; k < gf::NEVAL ; ++k) rhs[size_t(k)][i] = gf::add(rhs[size_t(k)][i], v.v[k]);
            rhs[gf::NEVAL][i] += v.cnt;
            (void)particleIndex; (void)set;
        }
    }
    template <class Rhs>
    void accessRhs(Rhs& rhs, const long int idx[]) const {
        if constexpr(std::tuple_size<typename std::decay<Rhs>::type>::value == 0){ ctx->access(idx, true); (void)rhs; }
        else ctx->access(rhs[0], true);
    }

    template <class Header>
    static rm::Coord coordOf(const Header& h){ rm::Coord c{{0,0,0,0}}; for(int d = 0 ; d < Dim ; ++d) c[d] = h.boxCoord[d]; return c; }

    void shiftFactors(const rm::Coord& v, long scale, uint64_t f[gf::NEVAL]) const {
        rm::Coord s{{0,0,0,0}}; for(int d = 0 ; d < Dim ; ++d) s[d] = v[d] * scale;
        for(int k = 0 ; k < gf::NEVAL ; ++k) f[k] = ctx->P.shift(k, s, Dim);
    }

    template <class Header>
    static auto headerCount(const Header& h, int) -> decltype(long(h.nbParticles)) { return long(h.nbParticles); }
    template <class Header>
    static long headerCount(const Header&, long){ return -1; }

    template <class Header, class Particles>
    void checkLeafArgs(const char* what, int set, const Header& h, const long int idx[], const Particles& data, long n) const {
        if(!ctx->checking) return;
        if(n < 1){ ctx->error(std::string(what) + ": empty leaf"); return; }
        if(headerCount(h, 0) >= 0 && headerCount(h, 0) != n) ctx->error(std::string(what) + ": header.nbParticles != count argument");
        const rm::Coord hc = coordOf(h);
        for(long i = 0 ; i < n ; ++i){
            const long id = idx[i];
            if(ctx->leafOf[set]){
                if(id < 0 || id >= long(ctx->leafOf[set]->size())){ ctx->error(std::string(what) + ": particle index out of range"); return; }
                if((*ctx->leafOf[set])[size_t(id)] != hc){
                    std::ostringstream os; os << what << ": particle " << id << " handed to leaf (";
                    for(int d = 0 ; d < Dim ; ++d) os << (d ? "," : "") << hc[d];
                    os << ") but lies in leaf (";
                    for(int d = 0 ; d < Dim ; ++d) os << (d ? "," : "") << (*ctx->leafOf[set])[size_t(id)][d];
                    os << ")"; ctx->error(os.str()); return;
                }
            }
            if(ctx->rows[set]){
                const auto& row = (*ctx->rows[set])[size_t(id)];
                for(size_t v = 0 ; v < row.size() ; ++v){
                    const double got = double(data[v][i]);
                    if(std::memcmp(&got, &row[v], sizeof(double)) != 0 && !(got == row[v])){
                        std::ostringstream os; os << what << ": data value " << v << " of particle " << id << " is " << got << " expected " << row[v];
                        ctx->error(os.str()); return;
                    }
                }
            }
        }
    }

public:
    explicit GfKernel(Ctx* inCtx) : ctx(inCtx), copyId(inCtx->copies++){}
    // "AlgorithmClass algorithm(configuration)": the executor builds the kernel from the configuration
    template <class ConfigurationClass, typename = decltype(std::declval<const ConfigurationClass&>().getTreeHeight())>
    explicit GfKernel(const ConfigurationClass&) : ctx(defaultCtx()), copyId(defaultCtx()->copies++){}
    static Ctx*& defaultCtx(){ static Ctx* c = nullptr; return c; }
    GfKernel(const GfKernel& o) : ctx(o.ctx), copyId(o.ctx->copies++){}
    GfKernel(GfKernel&& o) : ctx(o.ctx), copyId(o.copyId){}
    GfKernel& operator=(const GfKernel&) = default;
    GfKernel& operator=(GfKernel&&) = default;
    int getCopyId() const { return copyId; }

    template <class CellSymbolicData, class ParticlesClass>
    void P2M(const CellSymbolicData& inLeafIndex, const long int particlesIndexes[], const ParticlesClass& inParticles,
             const long int inNbParticles, Cell& inOutLeaf) const {
        Guard g(ctx);
        ctx->calls[OpP2M] += 1; ctx->elems[OpP2M] += 1;
        ctx->useKernel(copyId); ctx->access(&inOutLeaf, true);
        checkLeafArgs("P2M", 0, inLeafIndex, particlesIndexes, inParticles, inNbParticles);
        if(ctx->checking){
            auto it = ctx->multAddr.find(&inOutLeaf);
            if(it != ctx->multAddr.end() && (it->second.level != ctx->height - 1 || it->second.c != coordOf(inLeafIndex)))
                ctx->error("P2M: multipole object does not belong to the leaf cell named by the header");
        }
        // origin convention (refmodel.hpp, Expect::origin): the expansion origin of cell (level, c) is (c - 1) * width(level), i.e. one cell
        // width below its lower corner. It depends on the level, so that EVERY translation (also towards child 0) moves the origin and
        // a wrong level argument changes the value. A particle of leaf S sits one leaf width above the origin of S.
        rm::Coord one{{0,0,0,0}}; for(int d = 0 ; d < Dim ; ++d) one[d] = 1;
        uint64_t f1[gf::NEVAL]; shiftFactors(one, 1, f1);
        gf::Val sum = gf::zero();
        for(long i = 0 ; i < inNbParticles ; ++i){
            for(int k = 0 ; k < gf::NEVAL ; ++k) sum.v[k] = gf::add(sum.v[k], ctx->P.weight(k, particlesIndexes[i], ctx->tagSrc));
            sum.cnt += 1;
        }
        gf::addShifted(inOutLeaf, sum, f1);
        if(ctx->logging) ctx->log.push_back(LogEntry{OpP2M, long(ctx->height - 1), coordOf(inLeafIndex), coordOf(inLeafIndex), 0});
    }

    template <class CellSymbolicData, class CellClassContainer>
    void M2M(const CellSymbolicData& inCellIndex, const long int inLevel, const CellClassContainer& inLowerCell, Cell& inOutUpperCell,
             const long int childrenPos[], const long int inNbChildren) const {
        Guard g(ctx);
        ctx->calls[OpM2M] += 1; ctx->elems[OpM2M] += inNbChildren;
        ctx->useKernel(copyId); ctx->access(&inOutUpperCell, true);
        for(long i = 0 ; i < inNbChildren ; ++i) ctx->access(&inLowerCell[size_t(i)].get(), false);
        const rm::Coord pc = coordOf(inCellIndex);
        if(ctx->checking){
            if(inNbChildren < 1 || inNbChildren > (1L << Dim)) ctx->error("M2M: number of children out of [1,2^Dim]");
            if(inLevel < 0 || inLevel > ctx->base) ctx->error("M2M: level out of range");
            long seen = 0;
            for(long i = 0 ; i < inNbChildren ; ++i){
                if(childrenPos[i] < 0 || childrenPos[i] >= (1L << Dim)){ ctx->error("M2M: child code out of range"); continue; }
                if(seen & (1L << childrenPos[i])) ctx->error("M2M: duplicate child code");
                seen |= (1L << childrenPos[i]);
            }
            if(!ctx->topTree && !ctx->hilbert){
                auto it = ctx->multAddr.find(&inOutUpperCell);
                if(it != ctx->multAddr.end() && (it->second.level != inLevel || it->second.c != pc)){
                    std::ostringstream os; os << "M2M: level argument " << inLevel << " / header do not match the parent object (level " << it->second.level << ")";
                    ctx->error(os.str());
                }
            }
        }
        if(inLevel < 0 || inLevel >= ctx->base + 1){ return; }
        const long cw = ctx->width(inLevel + 1);
        for(long i = 0 ; i < inNbChildren ; ++i){
            const rm::Coord off = rm::childFromCode(Dim, childrenPos[i]);
            const Cell& child = inLowerCell[size_t(i)].get();
            if(ctx->checking && !ctx->hilbert){
                auto it = ctx->multAddr.find(&child);
                if(it != ctx->multAddr.end()){
                    rm::Coord ec{{0,0,0,0}}; for(int d = 0 ; d < Dim ; ++d) ec[d] = (ctx->topTree ? 0 : 2 * pc[d]) + off[d];
                    const int el = ctx->topTree ? 1 : int(inLevel + 1);
                    if(it->second.level != el || it->second.c != ec) ctx->error("M2M: child object is not the child designated by (parent, position code)");
                }
            }
            rm::Coord offp{{0,0,0,0}}; for(int d = 0 ; d < Dim ; ++d) offp[d] = off[d] + 1;   // child origin - parent origin = (code + 1) * child width
            uint64_t f[gf::NEVAL]; shiftFactors(offp, cw, f);
            gf::addShifted(inOutUpperCell, child, f);
            if(ctx->logging){
                rm::Coord cc{{0,0,0,0}}; for(int d = 0 ; d < Dim ; ++d) cc[d] = 2 * pc[d] + off[d];
                ctx->log.push_back(LogEntry{OpM2M, inLevel, pc, cc, childrenPos[i]});
            }
        }
    }

    template <class CellSymbolicData, class CellClassContainer>
    void M2L(const CellSymbolicData& inTargetIndex, const long int inLevel, const CellClassContainer& inInteractingCells,
             const long int neighPos[], const long int inNbNeighbors, Cell& inOutCell) const {
        Guard g(ctx);
        ctx->calls[OpM2L] += 1; ctx->elems[OpM2L] += inNbNeighbors;
        ctx->useKernel(copyId); ctx->access(&inOutCell, true);
        for(long i = 0 ; i < inNbNeighbors ; ++i) ctx->access(&inInteractingCells[size_t(i)].get(), false);
        const rm::Coord tc = coordOf(inTargetIndex);
        if(ctx->checking){
            if(inNbNeighbors < 1) ctx->error("M2L: empty source list");
            if(inNbNeighbors > rm::ipow(7, Dim) - rm::ipow(3, Dim)) ctx->error("M2L: too many sources");
            if(!ctx->topTree){
                auto it = ctx->localAddr.find(&inOutCell);
                if(it != ctx->localAddr.end() && (it->second.level != inLevel || it->second.c != tc)){
                    std::ostringstream os; os << "M2L: level argument " << inLevel << " / header do not match the target object (level " << it->second.level << ")";
                    ctx->error(os.str());
                }
            }
        }
        if(inLevel < 0 || inLevel > ctx->base) return;
        const long cw = ctx->width(inLevel);
        const long n = 1L << inLevel;
        for(long i = 0 ; i < inNbNeighbors ; ++i){
            const long code = neighPos[i];
            if(code < 0 || code >= rm::ipow(7, Dim)){ if(ctx->checking) ctx->error("M2L: position code out of range"); continue; }
            const rm::Coord off = rm::transferFromCode(Dim, code);
            const Cell& src = inInteractingCells[size_t(i)].get();
            rm::Coord sc{{0,0,0,0}};
            for(int d = 0 ; d < Dim ; ++d) sc[d] = tc[d] + off[d];
            if(ctx->checking){
                long far = 0; bool parentsAdjacent = true;
                for(int d = 0 ; d < Dim ; ++d){
                    far = std::max(far, std::labs(off[d]));
                    const long ps = (sc[d] >= 0 ? sc[d] / 2 : -((-sc[d] + 1) / 2));
                    if(std::labs(ps - tc[d] / 2) > 1) parentsAdjacent = false;
                }
                if(far <= 1) ctx->error("M2L: source is adjacent to the target (not well separated)");
                if(!ctx->topTree && !parentsAdjacent) ctx->error("M2L: parents of source and target are not adjacent");
                if(!ctx->topTree){
                    rm::Coord wc = sc;
                    bool inside = true;
                    for(int d = 0 ; d < Dim ; ++d){
                        if(ctx->periodic) wc[d] = rm::posmod(sc[d], n);
                        else if(sc[d] < 0 || sc[d] >= n) inside = false;
                    }
                    if(!inside) ctx->error("M2L: position code points outside the box");
                    auto it = ctx->multAddr.find(&src);
                    if(it != ctx->multAddr.end() && (it->second.level != inLevel || it->second.c != wc)){
                        std::ostringstream os; os << "M2L: source object is cell L" << it->second.level << "(";
                        for(int d = 0 ; d < Dim ; ++d) os << (d ? "," : "") << it->second.c[d];
                        os << ") but target+offset designates L" << inLevel << "(";
                        for(int d = 0 ; d < Dim ; ++d) os << (d ? "," : "") << wc[d];
                        os << ")"; ctx->error(os.str());
                    }
                }
            }
            uint64_t f[gf::NEVAL]; shiftFactors(off, cw, f);
            gf::addShifted(inOutCell, src, f);
            if(ctx->logging){
                rm::Coord wc = sc; if(ctx->periodic && !ctx->topTree) for(int d = 0 ; d < Dim ; ++d) wc[d] = rm::posmod(sc[d], n);
                ctx->log.push_back(LogEntry{OpM2L, inLevel, tc, wc, code});
            }
        }
    }

    template <class CellSymbolicData, class CellClassContainer>
    void L2L(const CellSymbolicData& inParentIndex, const long int inLevel, const Cell& inUpperCell, CellClassContainer& inOutLowerCell,
             const long int childrenPos[], const long int inNbChildren) const {
        Guard g(ctx);
        ctx->calls[OpL2L] += 1; ctx->elems[OpL2L] += inNbChildren;
        ctx->useKernel(copyId); ctx->access(&inUpperCell, false);
        for(long i = 0 ; i < inNbChildren ; ++i) ctx->access(&inOutLowerCell[size_t(i)].get(), true);
        const rm::Coord pc = coordOf(inParentIndex);
        if(ctx->checking){
            if(inNbChildren < 1 || inNbChildren > (1L << Dim)) ctx->error("L2L: number of children out of [1,2^Dim]");
            long seen = 0;
            for(long i = 0 ; i < inNbChildren ; ++i){
                if(childrenPos[i] < 0 || childrenPos[i] >= (1L << Dim)){ ctx->error("L2L: child code out of range"); continue; }
                if(seen & (1L << childrenPos[i])) ctx->error("L2L: duplicate child code");
                seen |= (1L << childrenPos[i]);
            }
            if(!ctx->topTree && !ctx->hilbert){
                auto it = ctx->localAddr.find(&inUpperCell);
                if(it != ctx->localAddr.end() && (it->second.level != inLevel || it->second.c != pc)){
                    std::ostringstream os; os << "L2L: level argument " << inLevel << " / header do not match the parent object (level " << it->second.level << ")";
                    ctx->error(os.str());
                }
            }
        }
        if(inLevel < 0 || inLevel >= ctx->base + 1) return;
        const long cw = ctx->width(inLevel + 1);
        for(long i = 0 ; i < inNbChildren ; ++i){
            const rm::Coord off = rm::childFromCode(Dim, childrenPos[i]);
            Cell& child = inOutLowerCell[size_t(i)].get();
            if(ctx->checking && !ctx->hilbert){
                auto it = ctx->localAddr.find(&child);
                if(it != ctx->localAddr.end()){
                    rm::Coord ec{{0,0,0,0}}; for(int d = 0 ; d < Dim ; ++d) ec[d] = ((ctx->topTree) ? 0 : 2 * pc[d]) + off[d];
                    const int el = ctx->topTree ? 1 : int(inLevel + 1);
                    if(it->second.level != el || it->second.c != ec) ctx->error("L2L: child object is not the child designated by (parent, position code)");
                }
            }
            rm::Coord neg{{0,0,0,0}}; for(int d = 0 ; d < Dim ; ++d) neg[d] = -(off[d] + 1);          // parent origin - child origin
            uint64_t f[gf::NEVAL]; shiftFactors(neg, cw, f);
            gf::addShifted(child, inUpperCell, f);
            if(ctx->logging){
                rm::Coord cc{{0,0,0,0}}; for(int d = 0 ; d < Dim ; ++d) cc[d] = 2 * pc[d] + off[d];
                ctx->log.push_back(LogEntry{OpL2L, inLevel, pc, cc, childrenPos[i]});
            }
        }
    }

    template <class CellSymbolicData, class ParticlesClassValues, class ParticlesClassRhs>
    void L2P(const CellSymbolicData& inLeafIndex, const Cell& inLeaf, const long int particlesIndexes[],
             const ParticlesClassValues& inOutParticles, ParticlesClassRhs& inOutParticlesRhs, const long int inNbParticles) const {
        Guard g(ctx);
        ctx->calls[OpL2P] += 1; ctx->elems[OpL2P] += 1;
        ctx->useKernel(copyId); ctx->access(&inLeaf, false); accessRhs(inOutParticlesRhs, particlesIndexes);
        checkLeafArgs("L2P", ctx->tagTgt ? 1 : 0, inLeafIndex, particlesIndexes, inOutParticles, inNbParticles);
        if(ctx->checking){
            auto it = ctx->localAddr.find(&inLeaf);
            if(it != ctx->localAddr.end() && (it->second.level != ctx->height - 1 || it->second.c != coordOf(inLeafIndex)))
                ctx->error("L2P: local object does not belong to the leaf cell named by the header");
        }
        rm::Coord mone{{0,0,0,0}}; for(int d = 0 ; d < Dim ; ++d) mone[d] = -1;    // leaf origin - particle (see P2M)
        uint64_t fm[gf::NEVAL]; shiftFactors(mone, 1, fm);
        gf::Val atParticle = gf::zero(); gf::addShifted(atParticle, inLeaf, fm);
        for(long i = 0 ; i < inNbParticles ; ++i) addResult(inOutParticlesRhs, i, particlesIndexes[i], ctx->tagTgt ? 1 : 0, atParticle);
        if(ctx->logging) ctx->log.push_back(LogEntry{OpL2P, long(ctx->height - 1), coordOf(inLeafIndex), coordOf(inLeafIndex), 0});
    }

    // C10 "images are presented to the kernels displaced by whole multiples of the box width": the library hands P2P the wrapped
    // neighbour leaf and the position code; kernels that use positions obtain the displacement from TbfPeriodicShifter. The
    // utility is evaluated on exactly the argument tuples the executors pass and compared with the definition: dimension d is
    // displaced by -W_d / +W_d iff the unwrapped neighbour coordinate target + offset falls below 0 / beyond the grid.
    template <class SymbSrc, class SymbTgt>
    void checkShifter(const char* op, const SymbSrc& inSrc, const SymbTgt& inTgt, const rm::Coord& tc, const rm::Coord& off, long code) const {
        if constexpr(SpaceIndexType::IsPeriodic){
        if(!ctx->checking || !ctx->periodic || ctx->topTree || !ctx->shifterIndex) return;
        const SpaceIndexType& si = *static_cast<const SpaceIndexType*>(ctx->shifterIndex);
        using Shifter = TbfPeriodicShifter<RealType, SpaceIndexType>;
        const long n = 1L << (ctx->height - 1);
        bool expNeed = false; double expShift[4] = {0, 0, 0, 0};
        for(int d = 0 ; d < Dim ; ++d){
            if(tc[d] + off[d] < 0){ expShift[d] = -ctx->boxWidths[d]; expNeed = true; }
            else if(tc[d] + off[d] >= n){ expShift[d] = ctx->boxWidths[d]; expNeed = true; }
        }
        const bool need = Shifter::Neighbor::NeedToShift(inSrc, inTgt, si, code);
        if(need != expNeed){ std::ostringstream os; os << op << ": TbfPeriodicShifter::NeedToShift says " << (need ? "yes" : "no") << " for target leaf " << tc[0] << "," << tc[1] << "," << tc[2] << " and position code " << code << ", the neighbour " << (expNeed ? "lies" : "does not lie") << " across the periodic boundary"; ctx->error(os.str()); return; }
        if(need){
            const auto coef = Shifter::Neighbor::GetShiftCoef(inSrc, inTgt, si, code);
            for(int d = 0 ; d < Dim ; ++d) if(double(coef[size_t(d)]) != double(RealType(expShift[d]))){
                std::ostringstream os; os << op << ": TbfPeriodicShifter::GetShiftCoef gives " << double(coef[size_t(d)]) << " in dimension " << d << " for position code " << code << ", the image is displaced by " << expShift[d]; ctx->error(os.str()); return; }
        }
        }
        else{ (void)op; (void)inSrc; (void)inTgt; (void)tc; (void)off; (void)code; }
    }

    template <class LeafSymbolicData, class ParticlesClassValues, class ParticlesClassRhs>
    void P2P(const LeafSymbolicData& inNeighborIndex, const long int neighborsIndexes[], const ParticlesClassValues& inParticlesNeighbors,
             ParticlesClassRhs& inParticlesNeighborsRhs, const long int inNbParticlesNeighbors,
             const LeafSymbolicData& inTargetIndex, const long int targetIndexes[], const ParticlesClassValues& inOutParticles,
             ParticlesClassRhs& inOutParticlesRhs, const long int inNbOutParticles, const long arrayIndexSrc) const {
        Guard g(ctx);
        ctx->calls[OpP2P] += 1; ctx->elems[OpP2P] += 1;
        ctx->useKernel(copyId); accessRhs(inOutParticlesRhs, targetIndexes); accessRhs(inParticlesNeighborsRhs, neighborsIndexes);
        checkLeafArgs("P2P(source)", 0, inNeighborIndex, neighborsIndexes, inParticlesNeighbors, inNbParticlesNeighbors);
        checkLeafArgs("P2P(target)", 0, inTargetIndex, targetIndexes, inOutParticles, inNbOutParticles);
        const rm::Coord tc = coordOf(inTargetIndex), sc = coordOf(inNeighborIndex);
        if(arrayIndexSrc < 0 || arrayIndexSrc >= rm::ipow(3, Dim)){ if(ctx->checking) ctx->error("P2P: position code out of range"); return; }
        const rm::Coord off = rm::neighborFromCode(Dim, arrayIndexSrc);
        if(ctx->checking) checkNeighbor("P2P", tc, sc, off);
        checkShifter("P2P", inNeighborIndex, inTargetIndex, tc, off, arrayIndexSrc);
        uint64_t f[gf::NEVAL], fi[gf::NEVAL];
        rm::Coord neg{{0,0,0,0}}; for(int d = 0 ; d < Dim ; ++d) neg[d] = -off[d];
        shiftFactors(off, 1, f); shiftFactors(neg, 1, fi);
        gf::Val sumSrc = gf::zero(), sumTgt = gf::zero();
        for(long j = 0 ; j < inNbParticlesNeighbors ; ++j){ for(int k = 0 ; k < gf::NEVAL ; ++k) sumSrc.v[k] = gf::add(sumSrc.v[k], ctx->P.weight(k, neighborsIndexes[j], ctx->tagSrc)); sumSrc.cnt += 1; }
        for(long i = 0 ; i < inNbOutParticles ; ++i){ for(int k = 0 ; k < gf::NEVAL ; ++k) sumTgt.v[k] = gf::add(sumTgt.v[k], ctx->P.weight(k, targetIndexes[i], ctx->tagSrc)); sumTgt.cnt += 1; }
        gf::Val toTgt = gf::zero(), toSrc = gf::zero();
        gf::addShifted(toTgt, sumSrc, f); gf::addShifted(toSrc, sumTgt, fi);
        for(long i = 0 ; i < inNbOutParticles ; ++i) addResult(inOutParticlesRhs, i, targetIndexes[i], 0, toTgt);
        for(long j = 0 ; j < inNbParticlesNeighbors ; ++j) addResult(inParticlesNeighborsRhs, j, neighborsIndexes[j], 0, toSrc);
        if(ctx->logging) ctx->log.push_back(LogEntry{OpP2P, long(ctx->height - 1), tc, sc, arrayIndexSrc});
    }

    template <class LeafSymbolicDataSource, class ParticlesClassValuesSource, class LeafSymbolicDataTarget, class ParticlesClassValuesTarget, class ParticlesClassRhs>
    void P2PTsm(const LeafSymbolicDataSource& inNeighborIndex, const long int neighborsIndexes[], const ParticlesClassValuesSource& inParticlesNeighbors,
                const long int inNbParticlesNeighbors, const LeafSymbolicDataTarget& inTargetIndex, const long int targetIndexes[],
                const ParticlesClassValuesTarget& inOutParticles, ParticlesClassRhs& inOutParticlesRhs, const long int inNbOutParticles,
                const long arrayIndexSrc) const {
        Guard g(ctx);
        ctx->calls[OpP2PTsm] += 1; ctx->elems[OpP2PTsm] += 1;
        ctx->useKernel(copyId); accessRhs(inOutParticlesRhs, targetIndexes);
        checkLeafArgs("P2PTsm(source)", 0, inNeighborIndex, neighborsIndexes, inParticlesNeighbors, inNbParticlesNeighbors);
        checkLeafArgs("P2PTsm(target)", 1, inTargetIndex, targetIndexes, inOutParticles, inNbOutParticles);
        const rm::Coord tc = coordOf(inTargetIndex), sc = coordOf(inNeighborIndex);
        if(arrayIndexSrc < 0 || arrayIndexSrc >= rm::ipow(3, Dim)){ if(ctx->checking) ctx->error("P2PTsm: position code out of range"); return; }
        const rm::Coord off = rm::neighborFromCode(Dim, arrayIndexSrc);
        if(ctx->checking) checkNeighbor("P2PTsm", tc, sc, off, true);
        checkShifter("P2PTsm", inNeighborIndex, inTargetIndex, tc, off, arrayIndexSrc);
        uint64_t f[gf::NEVAL]; shiftFactors(off, 1, f);
        gf::Val sumSrc = gf::zero();
        for(long j = 0 ; j < inNbParticlesNeighbors ; ++j){ for(int k = 0 ; k < gf::NEVAL ; ++k) sumSrc.v[k] = gf::add(sumSrc.v[k], ctx->P.weight(k, neighborsIndexes[j], ctx->tagSrc)); sumSrc.cnt += 1; }
        gf::Val toTgt = gf::zero(); gf::addShifted(toTgt, sumSrc, f);
        for(long i = 0 ; i < inNbOutParticles ; ++i) addResult(inOutParticlesRhs, i, targetIndexes[i], 1, toTgt);
        if(ctx->logging) ctx->log.push_back(LogEntry{OpP2PTsm, long(ctx->height - 1), tc, sc, arrayIndexSrc});
    }

    template <class LeafSymbolicData, class ParticlesClassValues, class ParticlesClassRhs>
    void P2PInner(const LeafSymbolicData& inLeafIndex, const long int targetIndexes[], const ParticlesClassValues& inOutParticles,
                  ParticlesClassRhs& inOutParticlesRhs, const long int inNbOutParticles) const {
        Guard g(ctx);
        ctx->calls[OpP2PInner] += 1; ctx->elems[OpP2PInner] += 1;
        ctx->useKernel(copyId); accessRhs(inOutParticlesRhs, targetIndexes);
        checkLeafArgs("P2PInner", 0, inLeafIndex, targetIndexes, inOutParticles, inNbOutParticles);
        gf::Val sum = gf::zero();
        for(long i = 0 ; i < inNbOutParticles ; ++i){ for(int k = 0 ; k < gf::NEVAL ; ++k) sum.v[k] = gf::add(sum.v[k], ctx->P.weight(k, targetIndexes[i], ctx->tagSrc)); sum.cnt += 1; }
        for(long i = 0 ; i < inNbOutParticles ; ++i){
            gf::Val v = sum;
            for(int k = 0 ; k < gf::NEVAL ; ++k) v.v[k] = gf::sub(sum.v[k], ctx->P.weight(k, targetIndexes[i], ctx->tagSrc));
            v.cnt = sum.cnt - 1;
            addResult(inOutParticlesRhs, i, targetIndexes[i], 0, v);
        }
        if(ctx->logging) ctx->log.push_back(LogEntry{OpP2PInner, long(ctx->height - 1), coordOf(inLeafIndex), coordOf(inLeafIndex), 0});
    }

private:
    void checkNeighbor(const char* what, const rm::Coord& tc, const rm::Coord& sc, const rm::Coord& off, bool allowSelf = false) const {
        long m = 0; for(int d = 0 ; d < Dim ; ++d) m = std::max(m, std::labs(off[d]));
        if(m != 1 && !(allowSelf && m == 0)) ctx->error(std::string(what) + ": position code does not designate an adjacent leaf");
        const long n = 1L << (ctx->height - 1);
        for(int d = 0 ; d < Dim ; ++d){
            long e = tc[d] + off[d];
            if(ctx->periodic) e = rm::posmod(e, n);
            if(e != sc[d]){
                std::ostringstream os; os << what << ": source leaf (";
                for(int q = 0 ; q < Dim ; ++q) os << (q ? "," : "") << sc[q];
                os << ") is not target (";
                for(int q = 0 ; q < Dim ; ++q) os << (q ? "," : "") << tc[q];
                os << ") + decoded offset (";
                for(int q = 0 ; q < Dim ; ++q) os << (q ? "," : "") << off[q];
                os << ")"; ctx->error(os.str()); return;
            }
        }
    }
};

} // namespace probe

#endif
