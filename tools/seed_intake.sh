#!/bin/bash
# usage: tools/seed_intake.sh <property> <worktree> <name> [extra properties to run ...]
# Confirms an independently written breaking change in its scratch worktree (compiles, suite passes, demo fails with / passes
# without it), stores it under /verif/seeded/<name>/, then applies it to /repo, runs the checks and undoes it.
set -u
P=$1; WT=$2; NAME=$3; shift 3; EXTRA="$@"
D=/verif/seeded/$NAME
mkdir -p $D
cp $WT/demo/patch.diff $D/patch.diff || exit 2
for f in demo.cpp README.md meta.txt; do [ -f $WT/demo/$f ] && cp $WT/demo/$f $D/$f; done
cd $WT
FL=""; grep -q "omp" demo/demo.cpp && FL="-fopenmp"
[ -d demo/mock ] && { FL="$FL -I$WT/demo/mock"; cp -r demo/mock $D/; }
LIBS=""; grep -qi "unif\|fftw" demo/demo.cpp && LIBS="-lfftw3 -lfftw3f"
# 1. demo with the change
git -C $WT checkout -q -- src; git -C $WT apply $D/patch.diff || { echo "patch does not apply"; exit 2; }
g++ -std=c++17 -O1 -I$WT/src $FL demo/demo.cpp -o /tmp/seed_demo_with $LIBS 2> /tmp/seed_demo.log || { echo "demo does not compile with the change"; tail -3 /tmp/seed_demo.log; }
( cd demo && timeout 600 /tmp/seed_demo_with > /tmp/seed_with.out 2>&1 ); RC_WITH=$?
# 2. suite with the change (the worktree's own build directory)
SUITE="not run"
if [ -d $WT/_build ]; then
  ( cmake --build $WT/_build -j8 > /tmp/seed_suite_build.log 2>&1 && ctest --test-dir $WT/_build -j8 --timeout 900 > /tmp/seed_suite.log 2>&1 )
  SUITE=$(grep -E "tests passed|tests failed" /tmp/seed_suite.log | tail -1)
fi
# 3. demo without the change
git -C $WT checkout -q -- src
g++ -std=c++17 -O1 -I$WT/src $FL demo/demo.cpp -o /tmp/seed_demo_without $LIBS 2>> /tmp/seed_demo.log
( cd demo && timeout 600 /tmp/seed_demo_without > /tmp/seed_without.out 2>&1 ); RC_WITHOUT=$?
git -C $WT apply $D/patch.diff
echo "demo with change: exit $RC_WITH ; without: exit $RC_WITHOUT ; suite with change: $SUITE"
# 4. my checks against /repo with the change applied (SEED_SCRATCH=1: against a scratch copy of the committed /repo/src with the change
#    applied, for when a background run is using /repo itself)
cd /verif
if [ "${SEED_SCRATCH:-0}" = "1" ]; then
  SR=/tmp/seedrepo; rm -rf $SR; mkdir -p $SR; git -C /repo archive HEAD src | tar -x -C $SR
  ( cd $SR && patch -p1 -s < $D/patch.diff ) || { echo "patch does not apply to the scratch copy"; exit 2; }
  export VERIF_REPO=$SR
else
  git -C /repo apply $D/patch.diff || { echo "patch does not apply to /repo"; exit 2; }
fi
RESULTS=""
for prop in $P $EXTRA; do
  out=$(VERIF_SCRATCH=/verif/build/seedscratch ./check $prop --tier quick 2>&1); rc=$?
  v=$(echo "$out" | grep -c "^VIOLATION")
  first=$(echo "$out" | grep -A1 "^VIOLATION" | head -2 | tail -1 | cut -c1-200)
  echo "check $prop quick: exit $rc, $v violation line(s): $first"
  RESULTS="$RESULTS{\"property\":\"$prop\",\"tier\":\"quick\",\"exit\":$rc,\"violation_lines\":$v},"
done
if [ "${SEED_SCRATCH:-0}" = "1" ]; then rm -rf /tmp/seedrepo; unset VERIF_REPO; else git -C /repo checkout -- .; fi
rm -rf /verif/build/seedscratch
python3 - <<PY
import json
meta = {"name": "$NAME", "breaks_property": "$P", "worktree_confirmation": {"demo_exit_with_change": $RC_WITH, "demo_exit_without_change": $RC_WITHOUT, "suite_with_change": "$SUITE"},
        "checks_run": json.loads("[" + """$RESULTS""".rstrip(",") + "]"),
        "needs_to_manifest": "see meta.txt (written by the sub-agent)", "checks_ran_against": "${SEED_SCRATCH:-0}" == "1" and "scratch copy of the committed /repo/src with the change applied" or "/repo with the change applied (undone afterwards)"}
json.dump(meta, open("$D/meta.json", "w"), indent=1)
PY
git -C /repo status --short | grep -v _build | head -3
