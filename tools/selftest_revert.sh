#!/bin/bash
# usage: tools/selftest_revert.sh <commit-in-/repo> <property> [tier]
# Re-creates the tree without one "fix:" commit in a scratch copy (outside /repo and /verif), runs the
# property's check against it and prints the verdict. The check must raise VIOLATION.
set -u
C=$1; P=$2; T=${3:-quick}
D=/tmp/selftest-$C-$P
rm -rf $D; mkdir -p $D
cp -r /repo/src $D/src
( cd $D && git -C /repo show $C -- src | patch -R -p1 -s ) || { echo "cannot revert $C"; exit 2; }
VERIF_REPO=$D VERIF_SCRATCH=$D/out /verif/check $P --tier $T > $D/log.txt 2>&1
rc=$?
grep -E "VIOLATION|KNOWN|HARNESS|^$P:" $D/log.txt | cut -c1-300
echo "exit=$rc scratch=$D"
