// Independent reference model of the grid hierarchy and of the FMM interaction structure.
// Written from the definitions (README + property statements); includes no tbfmm header and never
// uses a space-filling-curve index: cells are identified by (level, integer coordinates).
#ifndef VERIF_REFMODEL_HPP
#define VERIF_REFMODEL_HPP

#include "fmmcase.hpp"
#include "gf.hpp"

#include <map>
#include <set>
#include <vector>
#include <array>
#include <cmath>
#include <cassert>
#include <algorithm>
#include <limits>
#include <cstdlib>

namespace rm {

using Coord = std::array<long, 4>;

inline Coord shr(const Coord& c, int s){ Coord r{{0,0,0,0}}; for(int d = 0 ; d < 4 ; ++d) r[d] = c[d] >> s; return r; }
inline long cheb(const Coord& a, const Coord& b, int dim){
    long m = 0; for(int d = 0 ; d < dim ; ++d) m = std::max(m, std::labs(a[d] - b[d])); return m;
}
inline long posmod(long a, long n){ long r = a % n; return r < 0 ? r + n : r; }

// ---------------------------------------------------------------------------------------------
// Geometry: which leaf contains a position, with a soundness verdict for generated positions.
// ---------------------------------------------------------------------------------------------
struct Locate {
    Coord c{{0,0,0,0}};
    bool inBox = true;      // the documented precondition 0 <= fl(p-corner) <= width holds in RealType
    bool sound = true;      // the containing leaf is unambiguous (exact arithmetic, or margin to a face)
    double margin = 1;      // smallest distance (in leaf widths) to an interior cell face
};

template <class Real>
struct Geo {
    int dim; int H; long n;
    Real center[4], width[4], corner[4], leafw[4];
    explicit Geo(const FmmCase& c) : dim(c.dim), H(c.height), n(1L << (c.height - 1)){
        for(int d = 0 ; d < 4 ; ++d){
            center[d] = Real(c.center[d]); width[d] = Real(c.width[d]);
            // documented: corner = center - width/2, leaf width = width / 2^(H-1), in the coordinate type
            volatile Real half = width[d] * (-Real(1) / Real(2));
            volatile Real cr = center[d] + half;
            corner[d] = cr;
            volatile Real lw = width[d] * (Real(1) / Real(1L << (H - 1)));
            leafw[d] = lw;
        }
    }
    Locate locate(const Pos4& p) const {
        Locate r;
        for(int d = 0 ; d < dim ; ++d){
            const Real pr = Real(p[d]);
            volatile Real rel = pr - corner[d];
            if(!(rel >= 0 && rel <= width[d])) r.inBox = false;
            const long double relx = (long double)pr - (long double)corner[d];
            const long double q = relx / (long double)leafw[d];
            long cc = long(std::floor(q));
            if(cc < 0) cc = 0;
            if(cc > n - 1) cc = n - 1;
            r.c[d] = cc;
            // exactness of the library-side computation in Real
            volatile Real qr = Real(rel) / leafw[d];
            const bool exact = ((long double)Real(rel) == relx) && ((long double)Real(qr) == q);
            const long double nearest = std::round(q);
            double m = 1;
            if(nearest >= 1 && nearest <= (long double)(n - 1)) m = double(std::fabs(q - nearest));
            const double eps = double(std::numeric_limits<Real>::epsilon());
            const double bound = 8 * eps * double(n) * (1 + double(std::fabs((long double)corner[d]) / (long double)leafw[d]) / double(n));
            if(!exact && m <= bound) r.sound = false;
            // upper outer face: the library clamps only when rel == width exactly; just below it the
            // quotient may not reach n by the argument in DESIGN 2.1, nothing to do here.
            if(m < r.margin) r.margin = m;
        }
        return r;
    }
};

// ---------------------------------------------------------------------------------------------
// Interaction-structure definitions on integer coordinates.
// ---------------------------------------------------------------------------------------------
struct Pair { Coord src; Coord off; };   // src = wrapped coordinates of the source, off = unwrapped src - target

// all offset vectors in [lo,hi]^dim
template <class F>
inline void forOffsets(int dim, long lo, long hi, F&& f){
    Coord o{{0,0,0,0}};
    for(int d = 0 ; d < dim ; ++d) o[d] = lo;
    while(true){
        f(o);
        int d = dim - 1;
        while(d >= 0){ if(++o[d] <= hi) break; o[d] = lo; --d; }
        if(d < 0) break;
    }
}

// Transfer (M2L) list of target T at level l: cells S (same level) whose parent is the parent of T or
// adjacent to it, and which are not adjacent to T (and not T). Offsets in [-3,3]^dim.
// Non periodic: clipped at the box. Periodic: on Z^dim, source coordinate wrapped modulo 2^l.
inline std::vector<Pair> transferList(int dim, int level, const Coord& T, bool periodic){
    std::vector<Pair> r;
    if(level < 1) return r;
    const long n = 1L << level;
    const Coord PT = shr(T, 1);
    forOffsets(dim, -3, 3, [&](const Coord& o){
        Coord S{{0,0,0,0}};
        bool ok = true, far = false;
        for(int d = 0 ; d < dim ; ++d){
            S[d] = T[d] + o[d];
            if(!periodic && (S[d] < 0 || S[d] >= n)) ok = false;
            if(std::labs(o[d]) > 1) far = true;
        }
        if(!ok || !far) return;
        // parent adjacency on the unwrapped lattice (floor division by 2)
        for(int d = 0 ; d < dim ; ++d){
            const long ps = (S[d] >= 0 ? S[d] / 2 : -((-S[d] + 1) / 2));
            if(std::labs(ps - PT[d]) > 1){ ok = false; break; }
        }
        if(!ok) return;
        Pair p; p.off = o; p.src = S;
        if(periodic) for(int d = 0 ; d < dim ; ++d) p.src[d] = posmod(S[d], n);
        r.push_back(p);
    });
    return r;
}

// Neighbour (P2P) list of T at level l: the 3^dim-1 adjacent cells.
inline std::vector<Pair> neighborList(int dim, int level, const Coord& T, bool periodic){
    std::vector<Pair> r;
    const long n = 1L << level;
    forOffsets(dim, -1, 1, [&](const Coord& o){
        bool self = true, ok = true;
        Coord S{{0,0,0,0}};
        for(int d = 0 ; d < dim ; ++d){
            if(o[d]) self = false;
            S[d] = T[d] + o[d];
            if(!periodic && (S[d] < 0 || S[d] >= n)) ok = false;
        }
        if(self || !ok) return;
        Pair p; p.off = o; p.src = S;
        if(periodic) for(int d = 0 ; d < dim ; ++d) p.src[d] = posmod(S[d], n);
        r.push_back(p);
    });
    return r;
}

// Documented position codes.
inline long childCode(int dim, const Coord& childCoord){      // Morton index of the 2^dim cube, dim 0 most significant
    long c = 0; for(int d = 0 ; d < dim ; ++d) c = (c << 1) | (childCoord[d] & 1); return c;
}
inline Coord childFromCode(int dim, long code){
    Coord r{{0,0,0,0}}; for(int d = dim - 1 ; d >= 0 ; --d){ r[d] = code & 1; code >>= 1; } return r;
}
inline long transferCode(int dim, const Coord& off){ long c = 0; for(int d = 0 ; d < dim ; ++d) c = c * 7 + (off[d] + 3); return c; }
inline Coord transferFromCode(int dim, long code){ Coord r{{0,0,0,0}}; for(int d = dim - 1 ; d >= 0 ; --d){ r[d] = code % 7 - 3; code /= 7; } return r; }
inline long neighborCode(int dim, const Coord& off){ long c = 0; for(int d = 0 ; d < dim ; ++d) c = c * 3 + (off[d] + 1); return c; }
inline Coord neighborFromCode(int dim, long code){ Coord r{{0,0,0,0}}; for(int d = dim - 1 ; d >= 0 ; --d){ r[d] = code % 3 - 1; code /= 3; } return r; }
inline long ipow(long b, int e){ long r = 1; while(e-- > 0) r *= b; return r; }

// definitional Morton index (dim 0 most significant inside each bit group)
inline long morton(int dim, const Coord& c, int level){
    long idx = 0;
    for(int b = level - 1 ; b >= 0 ; --b) for(int d = 0 ; d < dim ; ++d) idx = (idx << 1) | ((c[d] >> b) & 1);
    return idx;
}
inline Coord mortonInv(int dim, long idx, int level){
    Coord c{{0,0,0,0}};
    for(int b = 0 ; b < level ; ++b) for(int d = dim - 1 ; d >= 0 ; --d){ c[d] |= (idx & 1) << b; idx >>= 1; }
    return c;
}

// ---------------------------------------------------------------------------------------------
// One particle set binned on the grid.
// ---------------------------------------------------------------------------------------------
struct ModelTree {
    int dim = 3, H = 1; long n = 1;
    std::vector<Coord> leafOf;                          // per particle
    std::map<Coord, std::vector<long>> leaves;          // occupied leaf -> particle indices (insertion order)
    std::vector<std::set<Coord>> cells;                 // per level, ancestor closure
    bool allSound = true, allInBox = true;
    double minMargin = 1;
    long onFace = 0;                                    // particles with margin == 0 (exactly on a face, exact arithmetic)

    template <class Real>
    void build(const FmmCase& c, const std::vector<Pos4>& pos){
        dim = c.dim; H = c.height; n = 1L << (H - 1);
        Geo<Real> g(c);
        leafOf.clear(); leaves.clear(); cells.assign(H, {});
        for(size_t i = 0 ; i < pos.size() ; ++i){
            Locate l = g.locate(pos[i]);
            allSound = allSound && l.sound; allInBox = allInBox && l.inBox;
            minMargin = std::min(minMargin, l.margin);
            if(l.margin == 0) onFace += 1;
            leafOf.push_back(l.c);
            leaves[l.c].push_back(long(i));
        }
        for(const auto& kv : leaves) for(int l = 0 ; l < H ; ++l) cells[l].insert(shr(kv.first, H - 1 - l));
    }
    void buildFrom(const FmmCase& c, const std::vector<Pos4>& pos){
        if(c.real == 1) build<float>(c, pos); else build<double>(c, pos);
    }
    bool has(int level, const Coord& x) const { return cells[level].count(x) != 0; }
};

// ---------------------------------------------------------------------------------------------
// Expected values of the generating-function kernel (see gf.hpp).
// ---------------------------------------------------------------------------------------------
struct Expect {
    const gf::Params& P; int dim; int H; bool periodic; int tagSrc;
    const ModelTree& src;      // source particles (same as target tree for the single-tree case)
    Expect(const gf::Params& p, const ModelTree& s, bool per, int tag) : P(p), dim(s.dim), H(s.H), periodic(per), tagSrc(tag), src(s){ prepare(); }

    // expansion origin of cell (level, c), in leaf units: one cell width below the lower corner of the cell. Level dependent on purpose: the
    // translation between a parent and ANY of its children (also child 0) is then non zero, so that a wrong level argument of M2M / L2L
    // always changes the value (with the lower corner as origin, child 0 shares the origin of its parent).
    Coord origin(int level, const Coord& c) const { Coord r{{0,0,0,0}}; for(int d = 0 ; d < dim ; ++d) r[d] = (c[d] - 1) * (1L << (H - 1 - level)); return r; }
    // far field as a particle of leaf T receives it: the local of the leaf cell, moved from the origin of the leaf to the particle
    gf::Val farAtLeaf(const Coord& T, int lstop) const {
        const gf::Val l = local(H - 1, T, lstop);
        Coord rel{{0,0,0,0}}; for(int d = 0 ; d < dim ; ++d) rel[d] = -1;
        uint64_t f[gf::NEVAL]; for(int k = 0 ; k < gf::NEVAL ; ++k) f[k] = P.shift(k, rel, dim);
        gf::Val v = gf::zero(); gf::addShifted(v, l, f); return v;
    }

    // sum over source particles in leaf S of w_j * A^(S + add - ref)
    gf::Val leafSum(const Coord& S, const Coord& unwrappedOriginOfS, const Coord& ref, long skipParticle = -1) const {
        gf::Val v = gf::zero();
        auto it = src.leaves.find(S);
        if(it == src.leaves.end()) return v;
        Coord rel{{0,0,0,0}};
        for(int d = 0 ; d < dim ; ++d) rel[d] = unwrappedOriginOfS[d] - ref[d];
        uint64_t f[gf::NEVAL]; for(int k = 0 ; k < gf::NEVAL ; ++k) f[k] = P.shift(k, rel, dim);
        for(long j : it->second){
            if(j == skipParticle) continue;
            for(int k = 0 ; k < gf::NEVAL ; ++k) v.v[k] = gf::add(v.v[k], gf::mul(P.weight(k, j, tagSrc), f[k]));
            v.cnt += 1;
        }
        return v;
    }
    // multipoles by definition: for every cell, the sum over the particles below it, relative to the cell origin
    std::vector<std::map<Coord, gf::Val>> mult;
    void prepare(){
        mult.assign(H, {});
        for(const auto& kv : src.leaves){
            for(int l = 0 ; l < H ; ++l){
                const Coord C = shr(kv.first, H - 1 - l);
                const Coord o = origin(l, C);
                auto it = mult[l].find(C);
                if(it == mult[l].end()) it = mult[l].emplace(C, gf::zero()).first;
                gf::addPlain(it->second, leafSum(kv.first, kv.first, o));
            }
        }
    }
    // multipole of source cell C at level l, expressed relative to `ref`, the cell being displaced so
    // that its origin sits at `unwrappedOrigin` (translation of the origin = multiplication, see gf.hpp)
    gf::Val cellSum(int level, const Coord& C, const Coord& unwrappedOrigin, const Coord& ref) const {
        gf::Val v = gf::zero();
        auto it = mult[level].find(C);
        if(it == mult[level].end()) return v;
        Coord rel{{0,0,0,0}};
        for(int d = 0 ; d < dim ; ++d) rel[d] = unwrappedOrigin[d] - ref[d];
        uint64_t f[gf::NEVAL]; for(int k = 0 ; k < gf::NEVAL ; ++k) f[k] = P.shift(k, rel, dim);
        gf::addShifted(v, it->second, f);
        return v;
    }
    gf::Val multipole(int level, const Coord& C) const { const Coord o = origin(level, C); return cellSum(level, C, o, o); }

    // local expansion of target cell C (level l): all transfer-list contributions of C and of its
    // ancestors down to level lstop.
    gf::Val local(int level, const Coord& C, int lstop) const {
        gf::Val v = gf::zero();
        const Coord ref = origin(level, C);
        for(int l = std::max(lstop, 0) ; l <= level ; ++l){
            const Coord A = shr(C, level - l);
            const Coord oa = origin(l, A);
            const long cw = 1L << (H - 1 - l);
            for(const Pair& p : transferList(dim, l, A, periodic)){
                if(!src.has(l, p.src)) continue;
                Coord uo{{0,0,0,0}};
                for(int d = 0 ; d < dim ; ++d) uo[d] = oa[d] + p.off[d] * cw;
                gf::addPlain(v, cellSum(l, p.src, uo, ref));
            }
        }
        return v;
    }
    // near field received by one particle of target leaf T (selfIndex = its own index when it is also a source)
    gf::Val nearField(const Coord& T, long selfIndex, bool includeOwnLeaf = true) const {
        gf::Val v = gf::zero();
        for(const Pair& p : neighborList(dim, H - 1, T, periodic)){
            Coord uo{{0,0,0,0}};
            for(int d = 0 ; d < dim ; ++d) uo[d] = T[d] + p.off[d];
            gf::addPlain(v, leafSum(p.src, uo, T));
        }
        if(includeOwnLeaf) gf::addPlain(v, leafSum(T, T, T, selfIndex));
        return v;
    }
    // what a full run (working levels >= lstop) delivers to a particle in leaf T
    gf::Val particle(const Coord& T, long selfIndex, int lstop, bool far = true, bool near = true) const {
        gf::Val v = gf::zero();
        if(far && H > std::max(lstop, 0)) gf::addPlain(v, farAtLeaf(T, lstop));
        if(near) gf::addPlain(v, nearField(T, selfIndex));
        return v;
    }
    // sum over every source particle, displaced by `image` boxes, relative to T (minus skip)
    gf::Val allSources(const Coord& T, const Coord& image, long skip) const {
        gf::Val v = gf::zero();
        const long n = 1L << (H - 1);
        for(const auto& kv : src.leaves){
            Coord uo{{0,0,0,0}};
            for(int d = 0 ; d < dim ; ++d) uo[d] = kv.first[d] + image[d] * n;
            gf::addPlain(v, leafSum(kv.first, uo, T, skip));
        }
        return v;
    }
    // closed form for the periodic repetition cube [lo,hi]^dim
    gf::Val allImages(const Coord& T, long lo, long hi, long skipParticleInCentralBox) const {
        const long n = 1L << (H - 1);
        const Coord z{{0,0,0,0}};
        gf::Val base = allSources(T, z, -1);
        uint64_t f[gf::NEVAL];
        for(int k = 0 ; k < gf::NEVAL ; ++k){
            uint64_t prod = 1;
            for(int d = 0 ; d < dim ; ++d){
                uint64_t g = 0;
                for(long v = lo ; v <= hi ; ++v) g = gf::add(g, P.powd(k, d, v * n));
                prod = gf::mul(prod, g);
            }
            f[k] = prod;
        }
        gf::Val r = gf::zero();
        for(int k = 0 ; k < gf::NEVAL ; ++k) r.v[k] = gf::mul(base.v[k], f[k]);
        long nb = 1; for(int d = 0 ; d < dim ; ++d) nb *= (hi - lo + 1);
        r.cnt = base.cnt * uint64_t(nb);
        if(skipParticleInCentralBox >= 0){
            for(int k = 0 ; k < gf::NEVAL ; ++k) r.v[k] = gf::sub(r.v[k], P.weight(k, skipParticleInCentralBox, tagSrc));
            r.cnt -= 1;
        }
        return r;
    }
};

} // namespace rm

#endif
