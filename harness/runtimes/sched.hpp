// Scheduler core shared by the mock task runtimes (GOMP ABI, Specx API, StarPU API).
// The harness owns the schedule: submitted tasks and their declared dependencies are recorded as a
// DAG and executed one at a time, in an order that is always a linear extension of that DAG and is
// chosen by a generated decision list. Worker ids are generated too.
#ifndef VERIF_SCHED_HPP
#define VERIF_SCHED_HPP

#include <vector>
#include <map>
#include <set>
#include <functional>
#include <cstdint>
#include <cstdio>
#include <cstdlib>
#include <string>
#include <algorithm>

namespace msched {

enum Mode { DepIn = 0, DepOut = 1, DepCommute = 2 };   // DepOut = out / inout / write ; DepCommute = mutexinoutset / commutative write

struct Dep { const void* addr; int mode; };

struct Task {
    int id = 0;
    std::function<void()> body;
    std::vector<Dep> deps;
    int priority = 0;
    std::vector<int> preds, succs;
    int unmet = 0;
    bool done = false;
    int worker = 0;
    long createdAtEpoch = 0;     // number of "creator frames" that had returned when the task was created (informative)
    long order = -1;             // position in the executed order
    bool ranAtCreation = false;
};

struct AddrState {
    std::vector<int> lastOut;        // last writer, or the current group of commutative writers
    bool lastIsCommuteGroup = false;
    std::vector<int> groupPreds;     // predecessors shared by the commutative group
    std::vector<int> readersSince;
};

class Scheduler {
public:
    std::vector<Task> tasks;
    std::map<const void*, AddrState> addr;
    int nbThreads = 1;
    int strategy = 0;
    std::vector<uint32_t> decisions;
    size_t cursor = 0;
    int currentTask = -1;
    int currentWorker = 0;
    long executed = 0;
    long deferred = 0;               // tasks not run at their creation point
    std::set<int> workersUsed;
    std::vector<int> order;
    bool inWait = false;

    void reset(int threads, const std::vector<uint32_t>& sched){
        tasks.clear(); addr.clear(); order.clear(); workersUsed.clear();
        nbThreads = std::max(1, threads);
        strategy = sched.empty() ? 0 : int(sched[0] % 8);
        decisions.assign(sched.begin() + (sched.empty() ? 0 : 1), sched.end());
        cursor = 0; currentTask = -1; currentWorker = 0; executed = 0; deferred = 0; inWait = false;
    }
    uint32_t next(){
        if(decisions.empty()) return 0x9E3779B9u * uint32_t(++cursor);
        const uint32_t d = decisions[cursor % decisions.size()] + uint32_t(cursor / decisions.size()) * 0x85EBCA6Bu;
        ++cursor; return d;
    }

    int submit(std::function<void()> body, const std::vector<Dep>& deps, int priority){
        Task t; t.id = int(tasks.size()); t.body = std::move(body); t.deps = deps; t.priority = priority;
        std::set<int> preds;
        for(const Dep& d : deps){
            AddrState& a = addr[d.addr];
            if(d.mode == DepIn){
                for(int p : a.lastOut) preds.insert(p);
                a.readersSince.push_back(t.id);
            }
            else if(d.mode == DepOut){
                if(!a.readersSince.empty()) for(int p : a.readersSince) preds.insert(p);
                for(int p : a.lastOut) preds.insert(p);
                a.lastOut.assign(1, t.id); a.lastIsCommuteGroup = false; a.readersSince.clear(); a.groupPreds.clear();
            }
            else{
                if(a.lastIsCommuteGroup && a.readersSince.empty()){
                    for(int p : a.groupPreds) preds.insert(p);       // joins the group: unordered with its members, exclusive by atomic execution
                    a.lastOut.push_back(t.id);
                }
                else{
                    std::vector<int> gp;
                    for(int p : a.readersSince) gp.push_back(p);
                    for(int p : a.lastOut) gp.push_back(p);
                    for(int p : gp) preds.insert(p);
                    a.groupPreds = gp; a.lastOut.assign(1, t.id); a.lastIsCommuteGroup = true; a.readersSince.clear();
                }
            }
        }
        preds.erase(t.id);
        for(int p : preds){ t.preds.push_back(p); if(!tasks[size_t(p)].done) t.unmet += 1; }
        tasks.push_back(std::move(t));
        const int id = int(tasks.size()) - 1;
        for(int p : tasks[size_t(id)].preds) tasks[size_t(p)].succs.push_back(id);
        schedulingPoint(id);
        return id;
    }

    std::vector<int> ready() const {
        std::vector<int> r;
        for(const Task& t : tasks) if(!t.done && t.unmet == 0) r.push_back(t.id);
        return r;
    }

    void runTask(int id){
        Task& t = tasks[size_t(id)];
        t.worker = int(next() % uint32_t(nbThreads));
        workersUsed.insert(t.worker);
        const int savedTask = currentTask, savedWorker = currentWorker;
        currentTask = id; currentWorker = t.worker;
        t.order = executed++;
        order.push_back(id);
        std::function<void()> body = std::move(tasks[size_t(id)].body);
        body();
        currentTask = savedTask; currentWorker = savedWorker;
        Task& t2 = tasks[size_t(id)];
        t2.done = true;
        for(int s : t2.succs) tasks[size_t(s)].unmet -= 1;
    }

    int pick(const std::vector<int>& r){
        switch(strategy){
        default:
        case 0: case 1: return r.front();                               // FIFO
        case 2: return r.back();                                        // LIFO
        case 3: case 6: return r[next() % r.size()];                    // random
        case 4: { int b = r.front(); for(int x : r) if(tasks[size_t(x)].priority < tasks[size_t(b)].priority) b = x; return b; }   // priority inverted
        case 5: { int b = r.front(); for(int x : r) if(tasks[size_t(x)].priority > tasks[size_t(b)].priority) b = x; return b; }   // priority order
        case 7: return r[r.size() / 2];
        }
    }

    // called after every task creation
    void schedulingPoint(int created){
        int toRun = 0;
        switch(strategy){
        case 0: toRun = 1000000; break;                 // eager: everything that is ready runs now
        case 6: toRun = int(next() % 4); break;         // mixed: 0..3 ready tasks run now
        case 7: toRun = int(next() % 2); break;
        default: toRun = 0; break;                      // everything deferred to the wait
        }
        while(toRun-- > 0){
            std::vector<int> r = ready();
            if(r.empty()) break;
            const int id = pick(r);
            if(id == created) tasks[size_t(id)].ranAtCreation = true;
            runTask(id);
        }
        if(!tasks[size_t(created)].done) deferred += 1;
    }

    void waitAll(){
        inWait = true;
        while(true){
            std::vector<int> r = ready();
            if(r.empty()) break;
            runTask(pick(r));
        }
        inWait = false;
        for(const Task& t : tasks) if(!t.done){ fprintf(stderr, "mock scheduler: dependency cycle, task %d never ready\n", t.id); abort(); }
    }

    // reachability: does `a` precede `b` in the declared DAG?
    std::vector<std::vector<uint64_t>> closure() const {
        const size_t n = tasks.size(), w = (n + 63) / 64;
        std::vector<std::vector<uint64_t>> anc(n, std::vector<uint64_t>(w, 0));
        // tasks are numbered in creation order and predecessors always have smaller ids
        for(size_t i = 0 ; i < n ; ++i){
            for(int p : tasks[i].preds){
                anc[i][size_t(p) / 64] |= (uint64_t(1) << (size_t(p) % 64));
                for(size_t k = 0 ; k < w ; ++k) anc[i][k] |= anc[size_t(p)][k];
            }
        }
        return anc;
    }
    // two tasks are mutually exclusive without order if they belong to one commutative group on some address
    bool shareCommuteAddress(int a, int b) const {
        for(const Dep& da : tasks[size_t(a)].deps) if(da.mode == DepCommute)
            for(const Dep& db : tasks[size_t(b)].deps) if(db.mode == DepCommute && db.addr == da.addr) return true;
        return false;
    }
};

inline Scheduler& global(){ static Scheduler s; return s; }

} // namespace msched

#endif
