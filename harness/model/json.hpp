// Minimal JSON value (parse + dump) for replay files and counters. No external dependency.
#ifndef VERIF_JSON_HPP
#define VERIF_JSON_HPP

#include <string>
#include <vector>
#include <map>
#include <cstdio>
#include <cstdlib>
#include <cmath>
#include <stdexcept>
#include <fstream>
#include <sstream>

namespace vj {

struct Value {
    enum Kind { Null, Bool, Num, Str, Arr, Obj } kind = Null;
    bool b = false;
    double num = 0;
    bool isInt = false;
    long long inum = 0;
    std::string str;
    std::vector<Value> arr;
    std::vector<std::pair<std::string, Value>> obj;   // insertion ordered

    Value(){}
    Value(bool v) : kind(Bool), b(v){}
    Value(int v) : kind(Num), num(double(v)), isInt(true), inum(v){}
    Value(long v) : kind(Num), num(double(v)), isInt(true), inum(v){}
    Value(long long v) : kind(Num), num(double(v)), isInt(true), inum(v){}
    Value(unsigned v) : kind(Num), num(double(v)), isInt(true), inum(v){}
    Value(unsigned long v) : kind(Num), num(double(v)), isInt(true), inum((long long)v){}
    Value(double v) : kind(Num), num(v){}
    Value(const char* s) : kind(Str), str(s){}
    Value(const std::string& s) : kind(Str), str(s){}
    static Value array(){ Value v; v.kind = Arr; return v; }
    static Value object(){ Value v; v.kind = Obj; return v; }

    Value& push(const Value& v){ kind = Arr; arr.push_back(v); return arr.back(); }
    Value& operator[](const std::string& k){
        kind = Obj;
        for(auto& kv : obj) if(kv.first == k) return kv.second;
        obj.emplace_back(k, Value());
        return obj.back().second;
    }
    const Value* find(const std::string& k) const {
        for(auto& kv : obj) if(kv.first == k) return &kv.second;
        return nullptr;
    }
    bool has(const std::string& k) const { return find(k) != nullptr; }
    const Value& at(const std::string& k) const {
        const Value* v = find(k);
        if(!v) throw std::runtime_error("json: missing key " + k);
        return *v;
    }
    long long asInt() const { return isInt ? inum : (long long)num; }
    double asNum() const { return isInt ? double(inum) : num; }
    long long getInt(const std::string& k, long long def) const { const Value* v = find(k); return v ? v->asInt() : def; }
    double getNum(const std::string& k, double def) const { const Value* v = find(k); return v ? v->asNum() : def; }
    std::string getStr(const std::string& k, const std::string& def) const { const Value* v = find(k); return v ? v->str : def; }

    void dump(std::string& out) const {
        char buf[64];
        switch(kind){
        case Null: out += "null"; break;
        case Bool: out += b ? "true" : "false"; break;
        case Num:
            if(isInt) snprintf(buf, sizeof buf, "%lld", inum);
            else if(std::isfinite(num)) snprintf(buf, sizeof buf, "%.17g", num);
            else snprintf(buf, sizeof buf, "null");
            out += buf; break;
        case Str:
            out += '"';
            for(char c : str){
                if(c == '"' || c == '\\'){ out += '\\'; out += c; }
                else if(c == '\n') out += "\\n";
                else if(c == '\t') out += "\\t";
                else if((unsigned char)c < 0x20){ snprintf(buf, sizeof buf, "\\u%04x", c); out += buf; }
                else out += c;
            }
            out += '"'; break;
        case Arr:
            out += '[';
            for(size_t i = 0 ; i < arr.size() ; ++i){ if(i) out += ','; arr[i].dump(out); }
            out += ']'; break;
        case Obj:
            out += '{';
            for(size_t i = 0 ; i < obj.size() ; ++i){
                if(i) out += ',';
                Value(obj[i].first).dump(out); out += ':'; obj[i].second.dump(out);
            }
            out += '}'; break;
        }
    }
    std::string dump() const { std::string s; dump(s); return s; }
};

class Parser {
    const std::string& s; size_t i = 0;
    void ws(){ while(i < s.size() && (s[i] == ' ' || s[i] == '\n' || s[i] == '\t' || s[i] == '\r')) ++i; }
    [[noreturn]] void fail(const char* m){ throw std::runtime_error(std::string("json parse: ") + m + " at " + std::to_string(i)); }
public:
    explicit Parser(const std::string& in) : s(in){}
    Value parse(){
        ws();
        if(i >= s.size()) fail("eof");
        char c = s[i];
        if(c == '{'){
            Value v = Value::object(); ++i; ws();
            if(s[i] == '}'){ ++i; return v; }
            while(true){
                ws(); Value k = parse(); if(k.kind != Value::Str) fail("key");
                ws(); if(s[i] != ':') fail(":"); ++i;
                Value x = parse(); v.obj.emplace_back(k.str, x);
                ws(); if(s[i] == ','){ ++i; continue; }
                if(s[i] == '}'){ ++i; break; }
                fail(", or }");
            }
            return v;
        }
        if(c == '['){
            Value v = Value::array(); ++i; ws();
            if(s[i] == ']'){ ++i; return v; }
            while(true){
                v.arr.push_back(parse());
                ws(); if(s[i] == ','){ ++i; continue; }
                if(s[i] == ']'){ ++i; break; }
                fail(", or ]");
            }
            return v;
        }
        if(c == '"'){
            ++i; std::string r;
            while(i < s.size() && s[i] != '"'){
                if(s[i] == '\\'){
                    ++i;
                    if(s[i] == 'n') r += '\n'; else if(s[i] == 't') r += '\t';
                    else if(s[i] == 'u'){ r += char(strtol(s.substr(i+1,4).c_str(), nullptr, 16)); i += 4; }
                    else r += s[i];
                    ++i;
                }
                else r += s[i++];
            }
            ++i; return Value(r);
        }
        if(s.compare(i, 4, "true") == 0){ i += 4; return Value(true); }
        if(s.compare(i, 5, "false") == 0){ i += 5; return Value(false); }
        if(s.compare(i, 4, "null") == 0){ i += 4; return Value(); }
        size_t j = i; bool isInt = true;
        while(j < s.size() && (isdigit((unsigned char)s[j]) || s[j] == '-' || s[j] == '+' || s[j] == '.' || s[j] == 'e' || s[j] == 'E' || s[j]=='x' || s[j]=='p' || (s[j]>='a'&&s[j]<='f'))){
            if(s[j] == '.' || s[j] == 'e' || s[j] == 'E' || s[j]=='p') isInt = false; ++j;
        }
        if(j == i) fail("value");
        std::string t = s.substr(i, j - i); i = j;
        if(isInt){ Value v((long long)strtoll(t.c_str(), nullptr, 10)); return v; }
        return Value(strtod(t.c_str(), nullptr));
    }
};

inline Value parse(const std::string& text){ Parser p(text); return p.parse(); }
inline Value parseFile(const std::string& path){
    std::ifstream f(path); if(!f) throw std::runtime_error("cannot open " + path);
    std::stringstream ss; ss << f.rdbuf(); return parse(ss.str());
}
inline void writeFile(const std::string& path, const Value& v){
    std::string tmp = path + ".tmp";
    { std::ofstream f(tmp); f << v.dump() << "\n"; }
    std::rename(tmp.c_str(), path.c_str());
}

} // namespace vj

#endif
