// Property binary (C19): the documented "zero result values" configuration (RhsType = void_data, 0 values per
// particle; README "Using mesh element as particles"): results are accumulated by the kernel in a table indexed by the
// original particle index. Embeds the construction (C06) and exactly-once (C01) oracles.
#ifndef DIM
#define DIM 3
#endif
#ifndef REALT
#define REALT double
#endif
#include "fmmharness.hpp"

using Real = REALT;
constexpr int Dim = DIM;
constexpr int RealCode = std::is_same<Real, float>::value ? 1 : 0;
using Config = TbfSpacialConfiguration<Real, Dim>;
using SI = TbfMortonSpaceIndex<Dim, Config, false>;
using Tree = TbfTree<Real, Real, Dim, void_data, 0, gf::Val, gf::Val, SI>;
using Kernel = probe::GfKernel<Real, SI>;
using Algo = TbfAlgorithm<Real, Kernel, SI>;

namespace {
using rm::Coord;
std::string propNoRhs(const FmmCase& c){
    if(c.dim != Dim) return "SKIP wrong dimension";
    if(c.real != RealCode) return "SKIP wrong coordinate type";
    rm::ModelTree mt; mt.build<Real>(c, c.pos);
    if(!mt.allInBox || !mt.allSound) return "SKIP generator soundness";
    const int H = c.height; const int lstop = 2;
    const Config config = fh::makeConfig<Real, Dim>(c);
    auto in = fh::makeInput<Real, Real, Dim>(c, c.pos, c.extra, Dim, 0);
    std::unique_ptr<Tree> tree;
    {
        fh::ScopedBlockEnv env(c.blockSize == -1 ? c.envBlock : 0);
        if(c.blockSize == -1) tree.reset(new Tree(config, in.data)); else tree.reset(new Tree(config, in.data, c.blockSize, c.oneGroupPerParent != 0));
    }
    std::string e = fh::checkStructure<Dim>(*tree, mt, tree->getNbElementsPerGroup(), c.blockSize == -1 ? false : c.oneGroupPerParent != 0);
    if(!e.empty()) return "structure: " + e;
    e = fh::checkConstruction<Dim>(*tree, mt, in.rows, true);
    if(!e.empty()) return "construction: " + e;
    probe::Ctx ctx(c.salt);
    ctx.dim = Dim; ctx.height = H; ctx.base = H - 1;
    ctx.leafOf[0] = &mt.leafOf; ctx.rows[0] = &in.rows;
    std::vector<gf::Val> results(c.pos.size(), gf::zero());
    ctx.external[0] = &results;
    fh::registerCells<Dim>(*tree, ctx);
    Algo algo(config, Kernel(&ctx));
    algo.execute(*tree);
    if(!ctx.errors.empty()) return "arguments: " + ctx.errors.front();
    rm::Expect ex(ctx.P, mt, false, 0);
    std::map<Coord, gf::Val> perLeaf;
    for(size_t i = 0 ; i < results.size() ; ++i){
        const Coord T = mt.leafOf[i];
        auto it = perLeaf.find(T);
        if(it == perLeaf.end()){ gf::Val v = gf::zero(); if(H > lstop) gf::addPlain(v, ex.farAtLeaf(T, lstop)); gf::addPlain(v, ex.nearField(T, -1)); it = perLeaf.emplace(T, v).first; }
        gf::Val v = it->second; for(int k = 0 ; k < gf::NEVAL ; ++k) v.v[k] = gf::sub(v.v[k], ctx.P.weight(k, long(i), 0)); v.cnt -= 1;
        if(results[i] != v) return "particle " + std::to_string(i) + " accumulated " + fh::valStr(results[i]) + " expected " + fh::valStr(v);
    }
    // export of zero result values and of the data
    auto data = tree->getAllParticlesData(); auto rhs = tree->getAllParticlesRhs(); (void)rhs;
    for(size_t i = 0 ; i < c.pos.size() ; ++i) for(int d = 0 ; d < Dim ; ++d) if(double(data[i][size_t(d)]) != in.rows[i][size_t(d)]) return "export: data differs";
    tree->rebuild();
    e = fh::checkConstruction<Dim>(*tree, mt, in.rows, false);
    if(!e.empty()) return "after rebuild: " + e;
    if(mt.leaves.size() >= 2) hc::stats().noteNontrivial(hc::hashCase(c), c);
    return "";
}
}
int main(int argc, char** argv){
    hc::Args a = hc::parseArgs(argc, argv);
    if(a.prop.empty()){ std::cerr << "usage: --prop C19 ...\n"; return 2; }
    pbt::GenCfg g; g.dim = Dim; g.real = RealCode;
    static const int hmax[5] = {0, 7, 5, 4, 3};
    g.maxH = hmax[Dim]; g.maxN = 100;
    return hc::runMain(a, g, [&](const FmmCase& c){ return propNoRhs(c); });
}
