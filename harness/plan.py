"""Which binaries and campaigns decide which property (read by ../check)."""


class Bin:
    def __init__(self, name, sources, defs=None, needs_pbt=True, cxxflags=(), ldflags=(), ldflags_pre=(), includes=(), lazy=False):
        self.name = name
        self.sources = list(sources)
        self.defs = dict(defs or {})
        self.needs_pbt = needs_pbt
        self.cxxflags = list(cxxflags)
        self.ldflags = list(ldflags)
        self.ldflags_pre = list(ldflags_pre)
        self.includes = list(includes)
        self.lazy = lazy


class Job:
    def __init__(self, name, bin, quick, thorough, args=(), env=None, thorough_only=False,
                 timeout_quick=900, timeout_thorough=3600, build_failure_is_violation=False):
        self.name = name
        self.bin = bin
        self.quick = quick          # (processes, cases per process, max size)
        self.thorough = thorough
        self.args = list(args)
        self.env = dict(env or {})
        self.thorough_only = thorough_only
        self.timeout_quick = timeout_quick
        self.timeout_thorough = timeout_thorough
        self.build_failure_is_violation = build_failure_is_violation


class Meta:
    def __init__(self, jobs, rule, assumptions):
        self.jobs = jobs
        self.rule = rule
        self.assumptions = assumptions


def single(dim, nx=1, real="double", datat=None):
    defs = {"DIM": dim, "NX": nx, "REALT": real}
    name = "t_single_d%d_nx%d_%s" % (dim, nx, real)
    if datat:
        defs["DATAT"] = datat
        name += "_" + datat
    return Bin(name, ["props/t_single.cpp"], defs)


COMMON_ASSUME = [
    "the reference model (harness/model/refmodel.hpp) states the definitions correctly; it is cross-checked at run time by the FMM partition identity",
    "collisions of the two independent 61-bit generating-function evaluations are neglected (probability about 2^-120 per comparison)",
    "generated positions respect the documented precondition 0 <= fl(p-corner) <= width and are unambiguous (exact arithmetic or a margin to every cell face)",
    "g++ 12 -O1 with ASan/UBSan, asserts enabled; other compilers/optimisation levels are not explored",
]

PROPS = {}

PROPS["C01"] = Meta(
    jobs=[
        Job("d3", single(3), quick=(6, 500, 100), thorough=(16, 6000, 100)),
        Job("d2", single(2), quick=(4, 500, 100), thorough=(16, 6000, 100)),
        Job("d1", single(1), quick=(3, 500, 100), thorough=(16, 6000, 100)),
        Job("d4", single(4), quick=(3, 250, 100), thorough=(16, 2500, 100)),
    ],
    rule="rapidcheck-generated FmmCase (dimension, height, dyadic/generic box, 7 particle distributions incl. faces/corners/coincident, "
         "block size 1..N+2/huge/automatic/environment, both grouping modes, upper working level); oracle = exact generating-function "
         "values of every particle and every cell against the definitional model + multiset of elementary interactions; "
         "non-trivial = some level has >= 2 groups and the run performed >= 1 M2L and >= 1 inter-leaf P2P; distinct by hash of the whole case",
    assumptions=COMMON_ASSUME,
)
