// API-compatible mock of the part of StarPU used by tbfmm (src/algorithms/smstarpu).
// Codelets with CPU implementations, variable data handles, starpu_insert_task with STARPU_VALUE /
// STARPU_PRIORITY / STARPU_NAME / access-mode arguments, starpu_codelet_unpack_args.
// Semantics modelled: sequential data consistency per handle; STARPU_R after previous writers;
// STARPU_W / STARPU_RW after previous readers and writers; consecutive STARPU_RW|STARPU_COMMUTE
// accesses to one handle unordered among themselves but mutually exclusive.
// The schedule is owned by the harness (sched.hpp).
#ifndef VERIF_MOCK_STARPU_H
#define VERIF_MOCK_STARPU_H

#include "../sched.hpp"

#include <cstdarg>
#include <cstring>
#include <cstdint>
#include <cstddef>
#include <vector>
#include <memory>
#include <pthread.h>

#define STARPU_MAJOR_VERSION 1
#define STARPU_MINOR_VERSION 4
#define STARPU_NMAXBUFS 8
#define STARPU_MAXIMPLEMENTATIONS 4

enum starpu_data_access_mode {
    STARPU_NONE = 0, STARPU_R = (1 << 0), STARPU_W = (1 << 1), STARPU_RW = (STARPU_R | STARPU_W),
    STARPU_SCRATCH = (1 << 2), STARPU_REDUX = (1 << 3), STARPU_COMMUTE = (1 << 4), STARPU_SSEND = (1 << 5),
    STARPU_LOCALITY = (1 << 6), STARPU_ACCESS_MODE_MAX = (1 << 7)
};

#define STARPU_MODE_SHIFT 17
#define STARPU_VALUE (1 << STARPU_MODE_SHIFT)
#define STARPU_CALLBACK (2 << STARPU_MODE_SHIFT)
#define STARPU_PRIORITY (5 << STARPU_MODE_SHIFT)
#define STARPU_NAME (19 << STARPU_MODE_SHIFT)
#define STARPU_CL_ARGS (20 << STARPU_MODE_SHIFT)

#define STARPU_MAIN_RAM 0
#define STARPU_CPU (1u << 1)
#define STARPU_CUDA (1u << 3)
enum starpu_worker_archtype { STARPU_CPU_WORKER = 0, STARPU_CUDA_WORKER = 1 };
enum starpu_perfmodel_type { STARPU_PERFMODEL_INVALID = 0, STARPU_PER_ARCH, STARPU_COMMON, STARPU_HISTORY_BASED, STARPU_REGRESSION_BASED };
#define STARPU_CUDA_ASYNC (1 << 0)

struct starpu_perfmodel { enum starpu_perfmodel_type type; const char* symbol; };

typedef void (*starpu_cpu_func_t)(void**, void*);
typedef void (*starpu_cuda_func_t)(void**, void*);

struct starpu_codelet {
    uint32_t where;
    starpu_cpu_func_t cpu_funcs[STARPU_MAXIMPLEMENTATIONS];
    starpu_cuda_func_t cuda_funcs[STARPU_MAXIMPLEMENTATIONS];
    char cuda_flags[STARPU_MAXIMPLEMENTATIONS];
    int nbuffers;
    enum starpu_data_access_mode modes[STARPU_NMAXBUFS];
    struct starpu_perfmodel* model;
    const char* name;
};

struct starpu_variable_interface { int id; uintptr_t ptr; uintptr_t dev_handle; size_t offset; size_t elemsize; };
#define STARPU_VARIABLE_GET_PTR(x) (((struct starpu_variable_interface*)(x))->ptr)
#define STARPU_VARIABLE_GET_ELEMSIZE(x) (((struct starpu_variable_interface*)(x))->elemsize)

struct mock_starpu_handle { uintptr_t ptr; size_t size; bool registered; };
typedef struct mock_starpu_handle* starpu_data_handle_t;

namespace starpumock {
struct State { bool initialised = false; int initCount = 0; long registered = 0; long unregistered = 0; };
struct ArgPack { std::vector<std::vector<unsigned char>> values; };
inline State& state(){ static State s; return s; }
}

inline int starpu_init(void*){ starpumock::state().initialised = true; starpumock::state().initCount += 1; return 0; }
inline void starpu_shutdown(void){ starpumock::state().initCount -= 1; }
inline void starpu_pause(void){}
inline void starpu_resume(void){}
inline int starpu_task_wait_for_all(void){ msched::global().waitAll(); return 0; }
inline int starpu_worker_get_id(void){ return msched::global().currentWorker; }
inline unsigned starpu_worker_get_count(void){ return unsigned(msched::global().nbThreads); }
inline unsigned starpu_cpu_worker_get_count(void){ return unsigned(msched::global().nbThreads); }
inline int starpu_worker_get_count_by_type(enum starpu_worker_archtype t){ return t == STARPU_CPU_WORKER ? msched::global().nbThreads : 0; }

inline void starpu_execute_on_each_worker(void (*func)(void*), void* arg, uint32_t where){
    if(!(where & STARPU_CPU)) return;
    msched::Scheduler& s = msched::global();
    const int saved = s.currentWorker;
    for(int w = 0 ; w < s.nbThreads ; ++w){ s.currentWorker = w; func(arg); }
    s.currentWorker = saved;
}

inline void starpu_variable_data_register(starpu_data_handle_t* handle, int /*home_node*/, uintptr_t ptr, size_t size){
    *handle = new mock_starpu_handle{ptr, size, true};
    starpumock::state().registered += 1;
}
inline int starpu_data_acquire(starpu_data_handle_t, enum starpu_data_access_mode){ msched::global().waitAll(); return 0; }
inline void starpu_data_release(starpu_data_handle_t){}
inline void starpu_data_unregister(starpu_data_handle_t h){
    msched::global().waitAll();      // unregistering waits for the tasks using the handle
    starpumock::state().unregistered += 1;
    delete h;
}

inline int starpu_insert_task(struct starpu_codelet* cl, ...){
    va_list ap; va_start(ap, cl);
    auto pack = std::make_shared<starpumock::ArgPack>();
    std::vector<std::pair<int, starpu_data_handle_t>> accesses;
    int priority = 0;
    while(true){
        const int kind = va_arg(ap, int);
        if(kind == 0) break;
        if(kind == STARPU_VALUE){
            void* p = va_arg(ap, void*); const size_t sz = va_arg(ap, size_t);
            pack->values.emplace_back(static_cast<unsigned char*>(p), static_cast<unsigned char*>(p) + sz);   // copied at submission
        }
        else if(kind == STARPU_PRIORITY){ priority = va_arg(ap, int); }
        else if(kind == STARPU_NAME){ (void)va_arg(ap, const char*); }
        else if(kind > 0 && kind < STARPU_ACCESS_MODE_MAX){ accesses.emplace_back(kind, va_arg(ap, starpu_data_handle_t)); }
        else { fprintf(stderr, "mock starpu_insert_task: unsupported argument kind %d\n", kind); abort(); }
    }
    va_end(ap);
    if(int(accesses.size()) != cl->nbuffers){ fprintf(stderr, "mock starpu: codelet %s declares %d buffers, task gives %zu\n", cl->name ? cl->name : "?", cl->nbuffers, accesses.size()); abort(); }
    std::vector<msched::Dep> deps;
    for(size_t i = 0 ; i < accesses.size() ; ++i){
        // the mode given at insertion must be the one declared by the codelet (StarPU checks this too)
        if(accesses[i].first != int(cl->modes[i])){ fprintf(stderr, "mock starpu: access mode of buffer %zu differs from codelet %s\n", i, cl->name ? cl->name : "?"); abort(); }
        const int m = accesses[i].first;
        int mode = msched::DepIn;
        if(m & STARPU_W) mode = (m & STARPU_COMMUTE) ? msched::DepCommute : msched::DepOut;
        deps.push_back(msched::Dep{accesses[i].second, mode});
    }
    starpu_cpu_func_t fn = cl->cpu_funcs[0];
    msched::global().submit([fn, pack, accesses](){
        std::vector<starpu_variable_interface> itf(accesses.size());
        std::vector<void*> buffers(accesses.size());
        for(size_t i = 0 ; i < accesses.size() ; ++i){
            itf[i].id = 0; itf[i].ptr = accesses[i].second->ptr; itf[i].dev_handle = accesses[i].second->ptr; itf[i].offset = 0; itf[i].elemsize = accesses[i].second->size;
            buffers[i] = &itf[i];
        }
        fn(buffers.data(), pack.get());
    }, deps, priority);
    return 0;
}

// copies the packed values, in order, into the given destinations
inline void starpu_codelet_unpack_args(void* cl_arg, ...){
    starpumock::ArgPack* pack = static_cast<starpumock::ArgPack*>(cl_arg);
    va_list ap; va_start(ap, cl_arg);
    for(auto& v : pack->values){
        void* dst = va_arg(ap, void*);
        if(dst == nullptr) break;
        memcpy(dst, v.data(), v.size());
    }
    va_end(ap);
}

#endif
