// Mock of the libgomp entry points that g++ emits for the OpenMP constructs used by tbfmm
// (parallel, master, task with depend/firstprivate/priority, taskwait). The test binary is compiled
// with -fopenmp but linked WITHOUT libgomp, so a construct this file does not model is a link
// error (reported by the driver as "inconclusive"), never a silent mis-execution.
//
// ABI reference: libgomp/task.c (GOMP_task), libgomp/parallel.c (GOMP_parallel), gcc 12.
#include "sched.hpp"

#include <cstring>
#include <cstdlib>
#include <cstdint>
#include <memory>

namespace {
enum { GOMP_TASK_FLAG_DEPEND = 1 << 3, GOMP_TASK_FLAG_PRIORITY = 1 << 4 };
bool g_inParallel = false;
}

extern "C" {

int omp_get_thread_num(void){ return msched::global().currentTask >= 0 ? msched::global().currentWorker : 0; }
int omp_get_max_threads(void){ return msched::global().nbThreads; }
int omp_get_num_threads(void){ return g_inParallel ? msched::global().nbThreads : 1; }
int omp_get_num_procs(void){ return msched::global().nbThreads; }
int omp_in_parallel(void){ return g_inParallel ? 1 : 0; }
void omp_set_num_threads(int n){ msched::global().nbThreads = n > 0 ? n : 1; }
double omp_get_wtime(void){ return 0.0; }

void GOMP_parallel(void (*fn)(void*), void* data, unsigned /*num_threads*/, unsigned /*flags*/){
    // one implicit task (thread 0) executes the region; the other threads of a real team would only
    // wait at the closing barrier, executing tasks: that is what waitAll() models.
    const bool saved = g_inParallel;
    g_inParallel = true;
    fn(data);
    msched::global().waitAll();
    g_inParallel = saved;
}

void GOMP_taskwait(void){ msched::global().waitAll(); }
void GOMP_barrier(void){ msched::global().waitAll(); }

void GOMP_task(void (*fn)(void*), void* data, void (*cpyfn)(void*, void*), long arg_size, long arg_align,
               bool if_clause, unsigned flags, void** depend, int priority_arg, void* /*detach*/){
    std::vector<msched::Dep> deps;
    if((flags & GOMP_TASK_FLAG_DEPEND) && depend){
        const uintptr_t n0 = reinterpret_cast<uintptr_t>(depend[0]);
        if(n0 != 0){
            // old format: depend[0] = total, depend[1] = number of out/inout, addresses from depend[2] (out first)
            const uintptr_t nout = reinterpret_cast<uintptr_t>(depend[1]);
            for(uintptr_t i = 0 ; i < n0 ; ++i) deps.push_back(msched::Dep{depend[2 + i], i < nout ? msched::DepOut : msched::DepIn});
        }
        else{
            // new format: [1] total, [2] out/inout, [3] mutexinoutset, [4] in, addresses from [5] in that order
            const uintptr_t total = reinterpret_cast<uintptr_t>(depend[1]);
            const uintptr_t nout = reinterpret_cast<uintptr_t>(depend[2]);
            const uintptr_t nmtx = reinterpret_cast<uintptr_t>(depend[3]);
            const uintptr_t nin = reinterpret_cast<uintptr_t>(depend[4]);
            for(uintptr_t i = 0 ; i < total ; ++i){
                int mode = msched::DepIn;
                if(i < nout) mode = msched::DepOut;
                else if(i < nout + nmtx) mode = msched::DepCommute;
                else if(i < nout + nmtx + nin) mode = msched::DepIn;
                else mode = msched::DepOut;   // depobj entries: treated conservatively as inout
                deps.push_back(msched::Dep{depend[5 + i], mode});
            }
        }
    }
    // the argument block is copied at creation, exactly as libgomp does for a deferred task
    const size_t align = arg_align > 0 ? size_t(arg_align) : sizeof(void*);
    const size_t size = arg_size > 0 ? size_t(arg_size) : 1;
    void* raw = nullptr;
    if(posix_memalign(&raw, std::max(align, sizeof(void*)), ((size + align - 1) / align) * align) != 0) abort();
    std::shared_ptr<void> block(raw, free);
    if(cpyfn) cpyfn(raw, data); else memcpy(raw, data, size_t(arg_size));
    const int prio = (flags & GOMP_TASK_FLAG_PRIORITY) ? priority_arg : 0;
    (void)if_clause;   // an undeferred (if(0)) task is still ordered after its dependences; running it "now if ready" is one legal schedule among those generated
    msched::global().submit([fn, block](){ fn(block.get()); }, deps, prio);
}

} // extern "C"
