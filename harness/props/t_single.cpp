// Property binary: single tree + sequential executor + probe kernel.
// Compile-time menu: -DDIM=<1..4> -DNX=<extra data values> -DREALT=<double|float>
// Serves C01 C02 C06 C07 C08 C12 C16 C17 (sequential parts).
#ifndef DIM
#define DIM 3
#endif
#ifndef NX
#define NX 1
#endif
#ifndef REALT
#define REALT double
#endif
#ifndef DATAT
#define DATAT REALT
#endif

#include "fmmharness.hpp"

using Real = REALT;
using DataT = DATAT;
constexpr int Dim = DIM;
constexpr long NbData = Dim + NX;
// positions are generated in the narrower of the two types so that they are exactly representable in both
constexpr int RealCode = (std::is_same<Real, float>::value || std::is_same<DataT, float>::value) ? 1 : 0;

using Config = TbfSpacialConfiguration<Real, Dim>;
using SI = TbfMortonSpaceIndex<Dim, Config, false>;
using Tree = TbfTree<Real, DataT, NbData, uint64_t, gf::NEVAL + 1, gf::Val, gf::Val, SI>;
using Kernel = probe::GfKernel<Real, SI>;
using Algo = TbfAlgorithm<Real, Kernel, SI>;

namespace {

using rm::Coord;

struct Built {
    rm::ModelTree mt;
    fh::ParticleInput<DataT, NbData> in;
    std::unique_ptr<Tree> tree;
    long blockSizeUsed = 0;
    long nbGroups = 0;
};

std::string build(const FmmCase& c, long blockSize, long envBlock, int ogpp, Built& b){
    b.mt = rm::ModelTree();
    b.mt.build<Real>(c, c.pos);
    if(!b.mt.allInBox) return "SKIP position outside the box (generator)";
    if(!b.mt.allSound) return "SKIP ambiguous leaf (generator)";
    b.in = fh::makeInput<Real, DataT, NbData>(c, c.pos, c.extra, Dim, c.nextra);
    const Config config = fh::makeConfig<Real, Dim>(c);
    {
        fh::ScopedBlockEnv env(blockSize == -1 ? envBlock : 0);
        if(blockSize == -1) b.tree.reset(new Tree(config, b.in.data));
        else b.tree.reset(new Tree(config, b.in.data, blockSize, ogpp != 0));
    }
    b.blockSizeUsed = b.tree->getNbElementsPerGroup();
    return "";
}

int flagsAll(){ return 63; }

// values of every cell (by level/coordinate) and every particle (by index), for comparisons between trees
struct TreeValues {
    std::map<std::pair<int, Coord>, std::pair<gf::Val, gf::Val>> cells;
    std::vector<gf::Val> particles;
};
TreeValues collect(Tree& tree, size_t nbParticles){
    TreeValues tv; tv.particles.assign(nbParticles, gf::zero());
    tree.applyToAllCells([&](const long level, auto&& header, auto&& m, auto&& l){
        tv.cells[std::make_pair(int(level), fh::hcoord<decltype(header), Dim>(header))] = std::make_pair(m->get(), l->get());
    });
    tree.applyToAllLeaves([&](auto&& header, const long int* idx, auto&& /*data*/, auto&& rhs){
        for(long i = 0 ; i < header.nbParticles ; ++i){
            gf::Val v; for(int k = 0 ; k < gf::NEVAL ; ++k) v.v[k] = rhs[size_t(k)][i]; v.cnt = rhs[gf::NEVAL][i];
            if(idx[i] >= 0 && size_t(idx[i]) < nbParticles) tv.particles[size_t(idx[i])] = v;
        }
    });
    return tv;
}

// C16: lookups against the model
std::string checkLookups(Tree& tree, const rm::ModelTree& mt, const FmmCase& c, long& nbQueries, long& nbGapQueries){
    const int H = mt.H;
    std::ostringstream os;
    for(int l = 0 ; l < H ; ++l){
        std::set<long> present;
        for(const Coord& x : mt.cells[size_t(l)]) present.insert(rm::morton(Dim, x, l));
        const long upper = 1L << (Dim * l);
        std::vector<long> qs;
        if(upper <= 4096){ for(long q = -2 ; q <= upper + 2 ; ++q) qs.push_back(q); }
        else{
            for(long p : present){ qs.push_back(p); qs.push_back(p - 1); qs.push_back(p + 1); }
            for(long q : c.queries){ qs.push_back(q < 0 ? q : (q * 2654435761L) % (upper + 3)); }
            qs.push_back(-1); qs.push_back(upper); qs.push_back(upper + 1); qs.push_back(0); qs.push_back(upper - 1);
        }
        const auto& groups = tree.getCellGroupsAtLevel(l);
        for(long q : qs){
            nbQueries += 1;
            const bool exp = present.count(q) != 0;
            if(!exp && !groups.empty() && q > groups.front().getStartingSpacialIndex() && q < groups.back().getEndingSpacialIndex()) nbGapQueries += 1;
            auto found = tree.findGroupWithCell(l, q);
            if(bool(found) != exp){ os << "findGroupWithCell(level " << l << ", index " << q << ") " << (found ? "returned a handle for an absent cell" : "found nothing for an existing cell"); return os.str(); }
            if(found){
                const auto& grp = found->first.get(); const long pos = found->second;
                if(pos < 0 || pos >= grp.getNbCells() || grp.getCellSpacialIndex(pos) != q){ os << "findGroupWithCell(level " << l << ", index " << q << ") returned a wrong position"; return os.str(); }
            }
            // per group accessors agree with a linear scan
            for(const auto& grp : groups){
                long scan = -1, scanParent = -1;
                for(long i = 0 ; i < grp.getNbCells() ; ++i){
                    if(scan < 0 && grp.getCellSpacialIndex(i) == q) scan = i;
                    if(scanParent < 0 && (grp.getCellSpacialIndex(i) >> Dim) == q) scanParent = i;
                }
                auto e = grp.getElementFromSpacialIndex(q);
                if((e ? *e : -1) != scan){ os << "getElementFromSpacialIndex(" << q << ") at level " << l << " disagrees with a linear scan"; return os.str(); }
                auto ep = grp.getElementFromParentIndex(tree.getSpacialSystem(), q);
                if((ep ? *ep : -1) != scanParent){ os << "getElementFromParentIndex(" << q << ") at level " << l << " disagrees with a linear scan"; return os.str(); }
            }
            if(l == H - 1){
                auto fl = tree.findGroupWithLeaf(q);
                if(bool(fl) != exp){ os << "findGroupWithLeaf(" << q << ") " << (fl ? "returned a handle for an absent leaf" : "found nothing for an existing leaf"); return os.str(); }
                if(fl){
                    const auto& grp = fl->first.get(); const long pos = fl->second;
                    if(pos < 0 || pos >= grp.getNbLeaves() || grp.getLeafSpacialIndex(pos) != q){ os << "findGroupWithLeaf(" << q << ") returned a wrong position"; return os.str(); }
                }
                for(const auto& grp : tree.getParticleGroups()){
                    long scan = -1;
                    for(long i = 0 ; i < grp.getNbLeaves() ; ++i) if(scan < 0 && grp.getLeafSpacialIndex(i) == q) scan = i;
                    auto e = grp.getElementFromSpacialIndex(q);
                    if((e ? *e : -1) != scan){ os << "particle group getElementFromSpacialIndex(" << q << ") disagrees with a linear scan"; return os.str(); }
                }
            }
        }
    }
    return "";
}


// C14 (group part): byte copies of a group's buffers, viewed through the raw-memory constructors, are equivalent groups
std::string checkGroupCopies(Tree& tree, const FmmCase& c, probe::Ctx& ctxModel, long& nbGroups){
    using CellGroup = typename Tree::CellGroupClass;
    using LeafGroup = typename Tree::LeafGroupClass;
    const Config config = fh::makeConfig<Real, Dim>(c);
    TbfGroupKernelInterface<SI> wrapper(config);
    const SI& sp = tree.getSpacialSystem();
    auto emptyBuf = [](size_t n, std::vector<std::vector<unsigned char>>& store) -> unsigned char* {
        store.emplace_back(n + 64, (unsigned char)0xAB);
        unsigned char* q = store.back().data();
        while(reinterpret_cast<uintptr_t>(q) % 16) ++q;
        return q;
    };
    auto copyBuf = [](const unsigned char* p, size_t n, std::vector<std::vector<unsigned char>>& store) -> unsigned char* {
        store.emplace_back(n + 64);
        unsigned char* q = store.back().data();
        while(reinterpret_cast<uintptr_t>(q) % 16) ++q;
        if(n) std::memcpy(q, p, n);
        return q;
    };
    const int H = c.height;
    for(int l = 0 ; l < H ; ++l){
        for(auto& g : tree.getCellGroupsAtLevel(l)){
            nbGroups += 1;
            // mode 0: the buffers hold the bytes when the view is constructed; mode 1 (deferred, as the StarPU/CUDA paths do): the view is
            // constructed on buffers that are filled afterwards, then initMemoryBlockHeader() re-derives the blocks from the trailers
            for(int mode = 0 ; mode < 2 ; ++mode){
            std::vector<std::vector<unsigned char>> store;
            auto ps = g.getDataPtrsAndSizes();
            std::array<std::pair<unsigned char*, size_t>, 3> cp;
            std::unique_ptr<CellGroup> viewPtr;
            if(mode == 0){
                for(size_t k = 0 ; k < 3 ; ++k) cp[k] = std::make_pair(copyBuf(ps[k].first, ps[k].second, store), ps[k].second);
                viewPtr.reset(new CellGroup(cp));
            }
            else{
                for(size_t k = 0 ; k < 3 ; ++k) cp[k] = std::make_pair(emptyBuf(ps[k].second, store), ps[k].second);
                viewPtr.reset(new CellGroup(cp, false));
                for(size_t k = 0 ; k < 3 ; ++k) if(ps[k].second) std::memcpy(cp[k].first, ps[k].first, ps[k].second);
                viewPtr->initMemoryBlockHeader();
            }
            CellGroup& view = *viewPtr;
            if(view.getNbCells() != g.getNbCells() || view.getStartingSpacialIndex() != g.getStartingSpacialIndex() || view.getEndingSpacialIndex() != g.getEndingSpacialIndex()) return "cell group copy: header differs";
            for(long i = 0 ; i < g.getNbCells() ; ++i){
                if(view.getCellSpacialIndex(i) != g.getCellSpacialIndex(i) || view.getCellBoxCoord(i) != g.getCellBoxCoord(i)) return "cell group copy: symbolic data of cell " + std::to_string(i) + " differs";
                if(view.getCellMultipole(i) != g.getCellMultipole(i) || view.getCellLocal(i) != g.getCellLocal(i)) return "cell group copy: expansion of cell " + std::to_string(i) + " differs";
                const unsigned char* a = reinterpret_cast<const unsigned char*>(&view.getCellMultipole(i));
                if(a < cp[1].first || a + sizeof(gf::Val) > cp[1].first + cp[1].second) return "cell group copy: multipole accessor leaves its buffer";
                a = reinterpret_cast<const unsigned char*>(&view.getCellLocal(i));
                if(a < cp[2].first || a + sizeof(gf::Val) > cp[2].first + cp[2].second) return "cell group copy: local accessor leaves its buffer";
                if(view.getElementFromSpacialIndex(g.getCellSpacialIndex(i)) != std::optional<long int>(i)) return "cell group copy: lookup differs";
            }
            }
        }
    }
    // particle groups + operators on copies
    auto& pgs = tree.getParticleGroups();
    auto& lgs = tree.getLeafGroups();
    for(size_t ig = 0 ; ig < pgs.size() ; ++ig){
        nbGroups += 1;
        for(int mode = 0 ; mode < 2 ; ++mode){
        std::vector<std::vector<unsigned char>> store;
        auto pp = pgs[ig].getDataPtrsAndSizes();
        std::array<std::pair<unsigned char*, size_t>, 2> cpp;
        std::unique_ptr<LeafGroup> pviewPtr;
        if(mode == 0){
            for(size_t k = 0 ; k < 2 ; ++k) cpp[k] = std::make_pair(copyBuf(pp[k].first, pp[k].second, store), pp[k].second);
            pviewPtr.reset(new LeafGroup(cpp));
        }
        else{
            for(size_t k = 0 ; k < 2 ; ++k) cpp[k] = std::make_pair(emptyBuf(pp[k].second, store), pp[k].second);
            pviewPtr.reset(new LeafGroup(cpp, false));
            for(size_t k = 0 ; k < 2 ; ++k) if(pp[k].second) std::memcpy(cpp[k].first, pp[k].first, pp[k].second);
            pviewPtr->initMemoryBlockHeader();
        }
        LeafGroup& pview = *pviewPtr;
        if(pview.getNbLeaves() != pgs[ig].getNbLeaves() || pview.getNbParticles() != pgs[ig].getNbParticles()) return "particle group copy: header differs";
        for(long i = 0 ; i < pgs[ig].getNbLeaves() ; ++i){
            if(pview.getLeafSpacialIndex(i) != pgs[ig].getLeafSpacialIndex(i) || pview.getNbParticlesInLeaf(i) != pgs[ig].getNbParticlesInLeaf(i) || pview.getLeafBoxCoord(i) != pgs[ig].getLeafBoxCoord(i)) return "particle group copy: leaf header differs";
            const long np = pgs[ig].getNbParticlesInLeaf(i);
            auto d0 = pgs[ig].getParticleData(i); auto d1 = pview.getParticleData(i);
            auto r0 = pgs[ig].getParticleRhs(i); auto r1 = pview.getParticleRhs(i);
            const long* i0 = pgs[ig].getParticleIndexes(i); const long* i1 = pview.getParticleIndexes(i);
            for(long p = 0 ; p < np ; ++p){
                if(i0[p] != i1[p]) return "particle group copy: index differs";
                for(size_t v = 0 ; v < d0.size() ; ++v){
                    if(std::memcmp(&d0[v][p], &d1[v][p], sizeof(DataT)) != 0) return "particle group copy: data value differs";
                    const unsigned char* a = reinterpret_cast<const unsigned char*>(&d1[v][p]);
                    if(a < cpp[0].first || a + sizeof(DataT) > cpp[0].first + cpp[0].second) return "particle group copy: data accessor leaves its buffer";
                }
                for(size_t v = 0 ; v < r0.size() ; ++v){
                    if(r0[v][p] != r1[v][p]) return "particle group copy: result value differs";
                    const unsigned char* a = reinterpret_cast<const unsigned char*>(&r1[v][p]);
                    if(a < cpp[1].first || a + sizeof(uint64_t) > cpp[1].first + cpp[1].second) return "particle group copy: result accessor leaves its buffer";
                }
            }
        }
        // operators on the copy compute what they compute on the original (P2M, M2L in group, L2P, P2P in group + inner)
        auto cps = lgs[ig].getDataPtrsAndSizes();
        std::array<std::pair<unsigned char*, size_t>, 3> ccp;
        for(size_t k = 0 ; k < 3 ; ++k) ccp[k] = std::make_pair(copyBuf(cps[k].first, cps[k].second, store), cps[k].second);
        CellGroup cview(ccp);
        probe::Ctx c1(c.salt), c2(c.salt);
        for(probe::Ctx* x : {&c1, &c2}){ x->dim = Dim; x->height = H; x->base = H - 1; x->checking = false; x->logging = false; }
        Kernel k1(&c1), k2(&c2);
        wrapper.P2M(k1, pgs[ig], lgs[ig]); wrapper.P2M(k2, pview, cview);
        auto il1 = sp.getInteractionListForBlock(lgs[ig], H - 1); auto il2 = sp.getInteractionListForBlock(cview, H - 1);
        if(il1.first.size() != il2.first.size() || il1.second.size() != il2.second.size()) return "group copy: interaction list of the copy differs";
        wrapper.M2LInGroup(H - 1, k1, lgs[ig], il1.first); wrapper.M2LInGroup(H - 1, k2, cview, il2.first);
        wrapper.L2P(k1, lgs[ig], pgs[ig]); wrapper.L2P(k2, cview, pview);
        auto nl1 = sp.getNeighborListForBlock(pgs[ig], H - 1, true); auto nl2 = sp.getNeighborListForBlock(pview, H - 1, true);
        if(nl1.first.size() != nl2.first.size() || nl1.second.size() != nl2.second.size()) return "group copy: neighbour list of the copy differs";
        wrapper.P2PInGroup(k1, pgs[ig], nl1.first); wrapper.P2PInGroup(k2, pview, nl2.first);
        wrapper.P2PInner(k1, pgs[ig]); wrapper.P2PInner(k2, pview);
        if(std::memcmp(ccp[1].first, cps[1].first, cps[1].second) != 0) return "operators on a copied group give different multipoles";
        if(std::memcmp(ccp[2].first, cps[2].first, cps[2].second) != 0) return "operators on a copied group give different locals";
        if(cpp[1].second && std::memcmp(cpp[1].first, pp[1].first, pp[1].second) != 0) return "operators on a copied group give different particle results";
        // the operators above changed the original group as well (k1): restore it from the copy of the first pass is not needed - both
        // passes apply the same operators to original and copy, and only equality of the two is asserted
        }
    }
    (void)ctxModel;
    return "";
}

// C17: bulk export
std::string checkExport(Tree& tree, const Built& b, const TreeValues& tv){
    const long N = long(b.mt.leafOf.size());
    auto data = tree.getAllParticlesData();
    auto rhs = tree.getAllParticlesRhs();
    for(long i = 0 ; i < N ; ++i){
        for(long v = 0 ; v < NbData ; ++v){
            const double got = double(data[size_t(i)][size_t(v)]);
            if(got != b.in.rows[size_t(i)][size_t(v)]) return "getAllParticlesData()[" + std::to_string(i) + "][" + std::to_string(v) + "] is " + std::to_string(got) + " expected " + std::to_string(b.in.rows[size_t(i)][size_t(v)]);
        }
        for(int k = 0 ; k < gf::NEVAL ; ++k) if(rhs[size_t(i)][size_t(k)] != tv.particles[size_t(i)].v[k]) return "getAllParticlesRhs()[" + std::to_string(i) + "][" + std::to_string(k) + "] differs from the result stored for that particle";
        if(rhs[size_t(i)][gf::NEVAL] != tv.particles[size_t(i)].cnt) return "getAllParticlesRhs()[" + std::to_string(i) + "] count differs";
    }
    return "";
}


// Runs the (possibly staged) execution and evaluates the oracles selected by `prop`.
std::string propSingle(const FmmCase& c, const std::string& prop){
    if(c.dim != Dim) return "SKIP wrong dimension";
    if(c.real != RealCode) return "SKIP wrong coordinate type";
    hc::Stats& st = hc::stats();
    Built b;
    {
        std::string s = build(c, c.blockSize, c.envBlock, c.oneGroupPerParent, b);
        if(!s.empty()) return s;
    }
    const int H = c.height;
    const int lstop = (c.lstop == -100) ? 2 : std::max(0, c.lstop);
    const bool ogpp = (c.blockSize == -1) ? false : (c.oneGroupPerParent != 0);

    const bool wantStruct = (prop == "C07");
    const bool wantConstr = (prop == "C06");
    const bool wantValues = (prop == "C01" || prop == "C12");
    const bool wantLog = (prop == "C01" || prop == "C12");
    const bool wantArgs = (prop == "C02");
    const bool wantLookups = (prop == "C16");
    const bool wantExport = (prop == "C17");
    const bool wantGrouping = (prop == "C08");

    // C07 / C06 before execution
    {
        std::string e = fh::checkStructure<Dim>(*b.tree, b.mt, b.blockSizeUsed, ogpp, &b.nbGroups);
        if(!e.empty()){ if(wantStruct) return "structure: " + e; st.cls("other-oracle:structure"); }
        e = fh::checkConstruction<Dim>(*b.tree, b.mt, b.in.rows, true);
        if(!e.empty()){ if(wantConstr) return "construction: " + e; st.cls("other-oracle:construction"); }
    }
    const std::vector<unsigned char> symbBefore = fh::symbolicSnapshot(*b.tree);

    probe::Ctx ctx(c.salt);
    ctx.dim = Dim; ctx.height = H; ctx.base = H - 1; ctx.periodic = false;
    ctx.leafOf[0] = &b.mt.leafOf; ctx.rows[0] = &b.in.rows;
    fh::registerCells<Dim>(*b.tree, ctx);

    const Config config = fh::makeConfig<Real, Dim>(c);
    std::unique_ptr<Algo> algo;
    if(c.lstop == -100) algo.reset(new Algo(config, Kernel(&ctx)));
    else algo.reset(new Algo(config, Kernel(&ctx), long(c.lstop)));

    rm::Expect ex(ctx.P, b.mt, false, 0);

    std::vector<int> calls = c.history;
    if(calls.empty()) calls.push_back(flagsAll());
    int done = 0;
    for(size_t ic = 0 ; ic < calls.size() ; ++ic){
        const int fl = calls[ic];
        const size_t logBefore = ctx.log.size();
        const auto multBefore = fh::valueSnapshot(*b.tree, true, false, false);
        const auto localBefore = fh::valueSnapshot(*b.tree, false, true, false);
        const auto rhsBefore = fh::valueSnapshot(*b.tree, false, false, true);
        algo->execute(*b.tree, fl);
        done |= fl;
        if(prop == "C12"){
            // only the requested operators ran, none above the working level, and only their outputs changed
            for(size_t i = logBefore ; i < ctx.log.size() ; ++i){
                const auto& e = ctx.log[i];
                int bit = 0;
                switch(e.op){ case probe::OpP2M: bit = 2; break; case probe::OpM2M: bit = 4; break; case probe::OpM2L: bit = 8; break;
                              case probe::OpL2L: bit = 16; break; case probe::OpL2P: bit = 32; break; default: bit = 1; }
                if(!(fl & bit)) return "flags " + std::to_string(fl) + " triggered operator " + probe::opName(e.op);
                if(e.op == probe::OpM2M || e.op == probe::OpM2L || e.op == probe::OpL2L) if(e.level < lstop) return std::string("operator ") + probe::opName(e.op) + " applied at level " + std::to_string(e.level) + " above the working level " + std::to_string(lstop);
            }
            const bool multMay = fl & (2 | 4), localMay = fl & (8 | 16), rhsMay = fl & (32 | 1);
            if(!multMay && multBefore != fh::valueSnapshot(*b.tree, true, false, false)) return "flags " + std::to_string(fl) + " modified multipoles";
            if(!localMay && localBefore != fh::valueSnapshot(*b.tree, false, true, false)) return "flags " + std::to_string(fl) + " modified locals";
            if(!rhsMay && rhsBefore != fh::valueSnapshot(*b.tree, false, false, true)) return "flags " + std::to_string(fl) + " modified particle results";
        }
    }
    if(fh::symbolicSnapshot(*b.tree) != symbBefore){
        if(wantConstr) return "execution modified symbolic data (headers, indices or particle data)";
        st.cls("other-oracle:symbolic-changed");
    }

    // ---- value oracle
    const bool farDone = (done & 62) == 62, nearDone = (done & 1) != 0;
    std::string valueErr, cellErr, logErr;
    long nbChecked = 0;
    {
        std::map<Coord, gf::Val> perLeaf;
        valueErr = fh::checkParticleValues<Dim>(*b.tree, b.mt, [&](const Coord& T, long id){
            auto it = perLeaf.find(T);
            if(it == perLeaf.end()){
                gf::Val v = gf::zero();
                if(farDone && H > lstop) gf::addPlain(v, ex.farAtLeaf(T, lstop));
                if(nearDone) gf::addPlain(v, ex.nearField(T, -1));
                it = perLeaf.emplace(T, v).first;
            }
            gf::Val v = it->second;
            if(nearDone){ for(int k = 0 ; k < gf::NEVAL ; ++k) v.v[k] = gf::sub(v.v[k], ctx.P.weight(k, id, 0)); v.cnt -= 1; }
            return v;
        }, nbChecked);
        // meta-check of the model (partition identity of the FMM): with working level <= 2 every other particle exactly once
        if(valueErr.empty() && farDone && nearDone && lstop <= 2 && !b.mt.leaves.empty()){
            const Coord T = b.mt.leaves.begin()->first; const long id = b.mt.leaves.begin()->second.front();
            gf::Val direct = ex.allSources(T, Coord{{0,0,0,0}}, id);
            gf::Val viaLists = gf::zero();
            if(H > lstop) gf::addPlain(viaLists, ex.farAtLeaf(T, lstop));
            gf::addPlain(viaLists, ex.nearField(T, id));
            if(direct != viaLists) return "MODEL-ERROR partition identity violated by the reference model";
        }
        cellErr = fh::checkCellValues<Dim>(*b.tree, b.mt, ex, lstop, H, (done & 6) == 6, (done & 30) == 30);
        const auto got = fh::normalizedLog(ctx, b.mt, false);
        const auto exp = fh::expectedLog(b.mt, false, lstop, done);
        logErr = fh::diffLogs(got, exp, Dim);
    }
    if(wantValues){
        if(!valueErr.empty()) return "values: " + valueErr;
        if(!cellErr.empty()) return "cells: " + cellErr;
    }
    else{ if(!valueErr.empty()) st.cls("other-oracle:values"); if(!cellErr.empty()) st.cls("other-oracle:cells"); }
    if(wantLog){ if(!logErr.empty()) return "interactions: " + logErr; }
    else if(!logErr.empty()) st.cls("other-oracle:log");
    if(wantArgs){ if(!ctx.errors.empty()) return "arguments: " + ctx.errors.front(); }
    else if(!ctx.errors.empty()) st.cls("other-oracle:args");

    // ---- lookups (C16), export (C17), grouping independence (C08), staged == full (C12)
    long nbQueries = 0, nbGapQueries = 0;
    if(wantLookups){
        std::string e = checkLookups(*b.tree, b.mt, c, nbQueries, nbGapQueries);
        if(!e.empty()) return "lookup: " + e;
    }
    long nbGroupsCopied = 0;
    if(prop == "C14"){
        std::string e = checkGroupCopies(*b.tree, c, ctx, nbGroupsCopied);
        if(!e.empty()) return "group copy: " + e;
    }
    TreeValues tv;
    if(wantExport || wantGrouping || prop == "C12") tv = collect(*b.tree, b.mt.leafOf.size());
    if(wantExport){
        std::string e = checkExport(*b.tree, b, tv);
        if(!e.empty()) return "export: " + e;
    }
    long calls2 = -1;
    if((wantGrouping && c.blockSize2 != 0) || (prop == "C12" && done == 63)){
        Built b2;
        const bool other = wantGrouping;
        std::string s2 = build(c, other ? c.blockSize2 : c.blockSize, other ? c.envBlock2 : c.envBlock, other ? c.oneGroupPerParent2 : c.oneGroupPerParent, b2);
        if(!s2.empty()) return s2;
        probe::Ctx ctx2(c.salt);
        ctx2.dim = Dim; ctx2.height = H; ctx2.base = H - 1;
        ctx2.leafOf[0] = &b2.mt.leafOf; ctx2.rows[0] = &b2.in.rows;
        std::unique_ptr<Algo> algo2;
        if(c.lstop == -100) algo2.reset(new Algo(config, Kernel(&ctx2)));
        else algo2.reset(new Algo(config, Kernel(&ctx2), long(c.lstop)));
        algo2->execute(*b2.tree);
        const TreeValues tv2 = collect(*b2.tree, b2.mt.leafOf.size());
        if(tv2.cells.size() != tv.cells.size()) return "the two runs do not hold the same set of cells";
        for(const auto& kv : tv.cells){
            auto it = tv2.cells.find(kv.first);
            if(it == tv2.cells.end()) return "cell L" + std::to_string(kv.first.first) + fh::coordStr(kv.first.second, Dim) + " missing in the second run";
            if(it->second.first != kv.second.first) return "multipole of cell L" + std::to_string(kv.first.first) + fh::coordStr(kv.first.second, Dim) + " differs between the two runs";
            if(it->second.second != kv.second.second) return "local of cell L" + std::to_string(kv.first.first) + fh::coordStr(kv.first.second, Dim) + " differs between the two runs";
        }
        for(size_t i = 0 ; i < tv.particles.size() ; ++i) if(tv.particles[i] != tv2.particles[i]) return "result of particle " + std::to_string(i) + " differs between the two runs";
        if(wantGrouping){
            const auto l1 = fh::normalizedLog(ctx, b.mt, false), l2 = fh::normalizedLog(ctx2, b2.mt, false);
            std::string d = fh::diffLogs(l2, l1, Dim);
            if(!d.empty()) return "multiset of elementary interactions differs between the groupings (second vs first): " + d;
            if(!logErr.empty()) return "interactions: " + logErr;
            if(!valueErr.empty()) return "values: " + valueErr;
        }
        calls2 = 0; for(int o = 0 ; o < probe::NbOps ; ++o) calls2 += ctx2.calls[o];
    }

    // ---- classification for evidence
    const long leafGroups = long(b.tree->getParticleGroups().size());
    const bool hasM2L = ctx.elems[probe::OpM2L] > 0, hasP2P = ctx.elems[probe::OpP2P] > 0;
    int m2mLevels = 0; for(int l = lstop ; l <= H - 2 ; ++l) m2mLevels += 1;
    bool multiGroupLevel = false; for(int l = 0 ; l < H ; ++l) if(b.tree->getCellGroupsAtLevel(l).size() >= 2) multiGroupLevel = true;
    st.cls("H=" + std::to_string(H));
    st.cls(std::string("blocksize:") + (c.blockSize == -1 ? (c.envBlock ? "env" : "auto") : (c.blockSize >= 10000000 ? "huge" : (c.blockSize == 1 ? "1" : "explicit"))));
    st.cls(ogpp ? "mode:oneGroupPerParent" : "mode:chunks");
    st.cls("m2m-levels:" + std::string(m2mLevels == 0 ? "0" : (m2mLevels == 1 ? "1" : ">=2")));
    if(b.mt.onFace) st.cls("particle-on-cell-face");
    if(long(b.mt.leafOf.size()) > long(b.mt.leaves.size())) st.cls("several-particles-per-leaf");
    if(ctx.calls[probe::OpM2M] > 0 && H >= 2){
        long parents = 0; for(int l = std::max(lstop, 0) ; l <= H - 2 ; ++l) parents += long(b.mt.cells[size_t(l)].size());
        if(ctx.calls[probe::OpM2M] > parents) st.cls("sibling-set-split-across-groups");
    }
    if(leafGroups >= 3) st.cls("leaf-groups>=3");
    bool nontrivial = multiGroupLevel && hasM2L && hasP2P;
    if(prop == "C16"){ st.cls("queries", nbQueries); st.cls("queries-in-gaps-or-absent-in-range", nbGapQueries); nontrivial = (leafGroups >= 3) && nbGapQueries > 0; }
    if(prop == "C17") nontrivial = long(b.mt.leafOf.size()) > NbData;
    if(prop == "C08"){ long calls1 = 0; for(int o = 0 ; o < probe::NbOps ; ++o) calls1 += ctx.calls[o]; nontrivial = calls2 >= 0 && calls1 != calls2; if(nontrivial) st.cls("groupings-batch-differently"); }
    if(prop == "C12"){ nontrivial = calls.size() >= 3 && H >= 3; st.cls("calls=" + std::to_string(calls.size())); st.cls("lstop=" + std::to_string(lstop)); }
    if(prop == "C07") nontrivial = leafGroups >= 3;
    if(prop == "C14"){ st.cls("groups-copied", nbGroupsCopied); nontrivial = leafGroups >= 2 && b.mt.leafOf.size() > b.mt.leaves.size(); }
    if(prop == "C06") nontrivial = b.mt.leafOf.size() >= 2 && (b.mt.onFace > 0 || c.width[0] != 1.0);
    if(prop == "C02"){ nontrivial = H - lstop >= 2 && ctx.elems[probe::OpM2L] > ctx.calls[probe::OpM2L]; }
    if(nontrivial) st.noteNontrivial(hc::hashCase(c), c);
    return "";
}

pbt::GenCfg cfgFor(const std::string& prop, const hc::Args& a){
    pbt::GenCfg g;
    g.dim = Dim; g.real = RealCode;
    static const int hmax[5] = {0, 8, 6, 5, 4};
    g.maxH = int(a.getInt("maxh", hmax[Dim]));
    g.maxN = int(a.getInt("maxn", Dim == 4 ? 120 : 250));
    g.maxNextra = NX;
    if(prop == "C12"){ g.histories = true; g.lstops = true; }
    if(prop == "C08") g.twoGroupings = true;
    if(prop == "C16"){ g.queries = true; }
    if(a.getInt("deep", 0)){
        // deep trees: cell indices beyond 32 bits (the library's range is Dim*(H-1) <= 62 bits; heights <= 31, see F-DEEP-LEVEL)
        static const int hdeep[5] = {0, 31, 24, 16, 12};
        g.minH = hdeep[Dim] / 2; g.maxH = hdeep[Dim]; g.maxN = 40; g.lstops = false;
    }
    if(prop == "C01" || prop == "C02") g.lstops = (a.getInt("lstops", 1) != 0);
    if(prop == "C15" || prop == "C06" || prop == "C07" || prop == "C16" || prop == "C17" || prop == "C01") g.emptySets = true;
    return g;
}

} // namespace

#ifdef FUZZ_TARGET
#include "../model/bytes.hpp"
extern "C" int LLVMFuzzerTestOneInput(const uint8_t* data, size_t size){
    static const std::string prop = getenv("VERIF_FUZZ_PROP") ? getenv("VERIF_FUZZ_PROP") : "C01";
    static const int hmaxF[5] = {0, 7, 5, 4, 3};
    const FmmCase c = fz::decode(data, size, Dim, hmaxF[Dim]);
    return hc::fuzzOne(c, [&](const FmmCase& x){ return propSingle(x, prop); });
}
#else
// bounded-exhaustive part: every occupancy pattern of a small tree x block sizes {1,2,3,5,nLeaves} x both grouping modes
// (one particle per occupied leaf, at the leaf centre of the unit box). --part k --parts n splits the pattern range.
int runExhaustive(const hc::Args& a, const std::string& prop){
    hc::stats().outPath = a.out;
    const int H = int(a.getInt("exh", Dim == 1 ? 5 : (Dim == 2 ? 3 : 2)));
    const long n = 1L << (H - 1);
    long nbLeaves = 1; for(int d = 0 ; d < Dim ; ++d) nbLeaves *= n;
    if(nbLeaves > 20){ std::cout << "exhaustive mode needs <= 20 leaves" << std::endl; return 2; }
    const long nbPatterns = (1L << nbLeaves) - 1;
    const long part = a.getInt("part", 0), parts = std::max(1L, a.getInt("parts", 1));
    long done = 0;
    const bool everyCase = a.getInt("isolate", 0) != 0;   // the rerun after a crash records every case (the crashing one is then in --cur)
    for(long pat = 1 + part ; pat <= nbPatterns ; pat += parts){
        FmmCase c; c.dim = Dim; c.height = H; c.real = RealCode; c.nextra = 0; c.salt = 7;
        for(long leaf = 0 ; leaf < nbLeaves ; ++leaf) if(pat & (1L << leaf)){
            Pos4 p{{0,0,0,0}}; long r = leaf;
            for(int d = 0 ; d < Dim ; ++d){ p[size_t(d)] = (double(r % n) + 0.5) / double(n); r /= n; }
            c.pos.push_back(p);
        }
        const long nOcc = long(c.pos.size());
        const long sizes[5] = {1, 2, 3, 5, nOcc};
        for(long bs : sizes) for(int mode = 0 ; mode < 2 ; ++mode){
            if(bs > nOcc && bs != 1) continue;
            c.blockSize = bs; c.oneGroupPerParent = mode;
            if(!a.cur.empty() && (everyCase || done % 256 == 0)) vj::writeFile(a.cur, c.toJson());
            hc::stats().evaluations += 1; done += 1;
            const std::string r = propSingle(c, prop);
            if(!r.empty() && r.compare(0, 4, "SKIP") != 0){
                if(!a.fail.empty()) vj::writeFile(a.fail, c.toJson());
                hc::stats().dump();
                std::cout << "FAIL " << r << std::endl; return (r.compare(0, 11, "MODEL-ERROR") == 0) ? 3 : 1;
            }
        }
    }
    hc::stats().cls("exhaustive-trees", done);
    hc::stats().cls("exhaustive-height", H);
    hc::stats().dump();
    std::cout << "HELD exhaustive trees=" << done << std::endl;
    return 0;
}

int main(int argc, char** argv){
    hc::Args a = hc::parseArgs(argc, argv);
    if(a.prop.empty()){ std::cerr << "usage: --prop Cxx [--seed S --cases N --size M --out stats.json --fail case.json --cur cur.json] [--replay case.json]\n"; return 2; }
    const std::string prop = a.prop;
    if(a.mode == "exhaustive" && a.replay.empty()) return runExhaustive(a, prop);
    return hc::runMain(a, cfgFor(prop, a), [&](const FmmCase& c){ return propSingle(c, prop); });
}
#endif
