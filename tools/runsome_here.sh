#!/bin/bash
# usage: tools/runsome_here.sh <tier> <Cxx> ...   (like runall_here.sh for a subset; used with `vp run`)
T=$1; shift
for p in "$@"; do
  s=$(date +%s)
  out=$(./check $p --tier $T 2>&1); rc=$?
  echo "$p rc=$rc $(( $(date +%s) - s ))s | $(echo "$out" | tail -1)"
  echo "$out" | grep -E "VIOLATION|HARNESS-ERROR|NOTE" | head -8
  echo "$out" | grep -A1 "^VIOLATION" | grep "^  " | head -3
done
