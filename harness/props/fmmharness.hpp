// Glue between generated cases, the library under test and the reference model.
// Shared by the property binaries that build trees.
#ifndef VERIF_FMMHARNESS_HPP
#define VERIF_FMMHARNESS_HPP

#include "tbfglobal.hpp"
#include "utils/tbfutils.hpp"
#include "spacial/tbfmortonspaceindex.hpp"
#include "spacial/tbfspacialconfiguration.hpp"
#include "core/tbfcellscontainer.hpp"
#include "core/tbfparticlescontainer.hpp"
#include "core/tbfparticlesorter.hpp"
#include "core/tbftree.hpp"
#include "algorithms/sequential/tbfalgorithm.hpp"

#include "../model/refmodel.hpp"
#include "../kernels/gfkernel.hpp"
#include "common.hpp"

#include <sstream>
#include <memory>

namespace fh {

using rm::Coord;

inline std::string coordStr(const Coord& c, int dim){
    std::ostringstream os; os << "(";
    for(int d = 0 ; d < dim ; ++d) os << (d ? "," : "") << c[d];
    os << ")"; return os.str();
}
inline std::string valStr(const gf::Val& v){
    std::ostringstream os; os << "{" << v.v[0] << "," << v.v[1] << ",cnt=" << v.cnt << "}"; return os.str();
}

// TBFMM_BLOCK_SIZE for the duration of a tree construction
struct ScopedBlockEnv {
    bool set = false;
    explicit ScopedBlockEnv(long v){ if(v > 0){ setenv("TBFMM_BLOCK_SIZE", std::to_string(v).c_str(), 1); set = true; } else unsetenv("TBFMM_BLOCK_SIZE"); }
    ~ScopedBlockEnv(){ if(set) unsetenv("TBFMM_BLOCK_SIZE"); }
};

template <class DataT, long NbData>
struct ParticleInput {
    std::vector<std::array<DataT, NbData>> data;       // what is handed to the tree constructor
    std::vector<std::vector<double>> rows;             // the same values, as double, for bit comparison
};

template <class Real, class DataT, long NbData>
ParticleInput<DataT, NbData> makeInput(const FmmCase& c, const std::vector<Pos4>& pos, const std::vector<double>& extra, int dim, int nextra){
    ParticleInput<DataT, NbData> in;
    in.data.resize(pos.size()); in.rows.resize(pos.size());
    for(size_t i = 0 ; i < pos.size() ; ++i){
        in.rows[i].resize(size_t(NbData));
        for(long v = 0 ; v < NbData ; ++v){
            double x = 0;
            if(v < dim) x = pos[i][size_t(v)];
            else if(nextra > 0 && size_t(i) * size_t(nextra) + size_t(v - dim) % size_t(nextra) < extra.size()) x = extra[size_t(i) * size_t(nextra) + size_t(v - dim) % size_t(nextra)];
            else x = double(long(i) * 7 + v);      // deterministic filler when the case carries fewer extra values than the binary's layout
            // documented conversion: positions are given in the coordinate type, stored as DataT
            const DataT stored = (v < dim) ? DataT(Real(x)) : DataT(x);
            in.data[i][size_t(v)] = stored;
            in.rows[i][size_t(v)] = double(stored);
        }
    }
    (void)c;
    return in;
}

template <class Real, int Dim>
TbfSpacialConfiguration<Real, Dim> makeConfig(const FmmCase& c){
    std::array<Real, Dim> w, ctr;
    for(int d = 0 ; d < Dim ; ++d){ w[size_t(d)] = Real(c.width[size_t(d)]); ctr[size_t(d)] = Real(c.center[size_t(d)]); }
    return TbfSpacialConfiguration<Real, Dim>(c.height, w, ctr);
}

template <class Header, int Dim>
Coord hcoord(const Header& h){ Coord c{{0,0,0,0}}; for(int d = 0 ; d < Dim ; ++d) c[size_t(d)] = h.boxCoord[size_t(d)]; return c; }

// address -> cell identity maps used by the argument checks of the probe kernel
template <int Dim, class Tree>
void registerCells(Tree& tree, probe::Ctx& ctx, bool mult = true, bool local = true){
    tree.applyToAllCells([&](const long level, auto&& header, auto&& m, auto&& l){
        probe::CellId id; id.level = int(level); id.c = hcoord<decltype(header), Dim>(header);
        if constexpr(std::is_same<typename std::decay<decltype(m)>::type, std::optional<std::reference_wrapper<gf::Val>>>::value){
            if(mult && m) ctx.multAddr[&(m->get())] = id;
        }
        if constexpr(std::is_same<typename std::decay<decltype(l)>::type, std::optional<std::reference_wrapper<gf::Val>>>::value){
            if(local && l) ctx.localAddr[&(l->get())] = id;
        }
    });
}

// ---------------------------------------------------------------------------------------------
// Oracles on a tree after execution
// ---------------------------------------------------------------------------------------------

// every particle's accumulated value equals expected(leaf of the particle by the MODEL, index)
template <int Dim, class Tree, class ExpectFn>
std::string checkParticleValues(Tree& tree, const rm::ModelTree& mt, ExpectFn&& expectOf, long& nbChecked){
    std::string err;
    std::vector<char> seen(mt.leafOf.size(), 0);
    tree.applyToAllLeaves([&](auto&& header, const long int* idx, auto&& /*data*/, auto&& rhs){
        if(!err.empty()) return;
        for(long i = 0 ; i < header.nbParticles ; ++i){
            const long id = idx[i];
            if(id < 0 || id >= long(mt.leafOf.size())){ err = "particle index out of range in tree"; return; }
            if(seen[size_t(id)]){ err = "particle " + std::to_string(id) + " stored twice"; return; }
            seen[size_t(id)] = 1;
            gf::Val got; for(int k = 0 ; k < gf::NEVAL ; ++k) got.v[k] = rhs[size_t(k)][i]; got.cnt = rhs[gf::NEVAL][i];
            const gf::Val exp = expectOf(mt.leafOf[size_t(id)], id);
            nbChecked += 1;
            if(got != exp){
                std::ostringstream os; os << "particle " << id << " in leaf " << coordStr(mt.leafOf[size_t(id)], Dim) << " accumulated " << valStr(got)
                                          << " expected " << valStr(exp) << " (count diff " << (long)(got.cnt - exp.cnt) << ")";
                err = os.str(); return;
            }
        }
    });
    if(err.empty()) for(size_t i = 0 ; i < seen.size() ; ++i) if(!seen[i]){ err = "particle " + std::to_string(i) + " missing from the tree"; break; }
    return err;
}

// every cell's multipole / local equals the model, cells above the working level untouched
template <int Dim, class Tree>
std::string checkCellValues(Tree& tree, const rm::ModelTree& mtTarget, const rm::Expect& ex, int lstop, int H, bool multDone, bool localDone){
    std::string err;
    std::vector<long> count(size_t(H), 0);
    tree.applyToAllCells([&](const long level, auto&& header, auto&& m, auto&& l){
        if(!err.empty()) return;
        const Coord c = hcoord<decltype(header), Dim>(header);
        count[size_t(level)] += 1;
        if(!mtTarget.has(int(level), c)){ err = "tree has a cell the model does not: L" + std::to_string(level) + coordStr(c, Dim); return; }
        const bool working = (level >= lstop) && (H > lstop);
        if constexpr(std::is_same<typename std::decay<decltype(m)>::type, std::optional<std::reference_wrapper<gf::Val>>>::value){
            if(m){
                const gf::Val exp = (working && multDone) ? ex.multipole(int(level), c) : gf::zero();
                if(m->get() != exp){ err = "multipole of cell L" + std::to_string(level) + coordStr(c, Dim) + " is " + valStr(m->get()) + " expected " + valStr(exp); return; }
            }
        }
        if constexpr(std::is_same<typename std::decay<decltype(l)>::type, std::optional<std::reference_wrapper<gf::Val>>>::value){
            if(l){
                const gf::Val exp = (working && localDone) ? ex.local(int(level), c, lstop) : gf::zero();
                if(l->get() != exp){ err = "local of cell L" + std::to_string(level) + coordStr(c, Dim) + " is " + valStr(l->get()) + " expected " + valStr(exp); return; }
            }
        }
    });
    if(err.empty()) for(int l = 0 ; l < H ; ++l) if(count[size_t(l)] != long(mtTarget.cells[size_t(l)].size())){
        err = "level " + std::to_string(l) + " has " + std::to_string(count[size_t(l)]) + " cells, model has " + std::to_string(mtTarget.cells[size_t(l)].size()); break; }
    return err;
}

// canonical form of a mutual P2P interaction {(T,o),(T+o,-o)}
inline probe::LogEntry canonP2P(int dim, long n, bool periodic, const Coord& T, const Coord& off){
    Coord S{{0,0,0,0}}, neg{{0,0,0,0}};
    for(int d = 0 ; d < dim ; ++d){ S[size_t(d)] = T[size_t(d)] + off[size_t(d)]; if(periodic) S[size_t(d)] = rm::posmod(S[size_t(d)], n); neg[size_t(d)] = -off[size_t(d)]; }
    const bool keep = std::make_pair(T, off) <= std::make_pair(S, neg);
    probe::LogEntry e; e.op = probe::OpP2P; e.level = 0;
    e.tgt = keep ? T : S; e.src = keep ? S : T; e.code = rm::neighborCode(dim, keep ? off : neg);
    return e;
}

// the multiset of elementary interactions the definitions imply (single tree, mutual P2P)
inline std::vector<probe::LogEntry> expectedLog(const rm::ModelTree& mt, bool periodic, int lstop, int flags){
    using namespace probe;
    std::vector<LogEntry> e;
    const int H = mt.H, dim = mt.dim;
    const bool far = H > lstop;
    if((flags & 2) && far) for(const auto& kv : mt.leaves) e.push_back(LogEntry{OpP2M, long(H - 1), kv.first, kv.first, 0});
    if((flags & 32) && far) for(const auto& kv : mt.leaves) e.push_back(LogEntry{OpL2P, long(H - 1), kv.first, kv.first, 0});
    for(int l = std::max(lstop, 0) ; l <= H - 2 ; ++l){
        for(const Coord& ch : mt.cells[size_t(l + 1)]){
            const Coord p = rm::shr(ch, 1);
            Coord off{{0,0,0,0}}; for(int d = 0 ; d < dim ; ++d) off[size_t(d)] = ch[size_t(d)] & 1;
            if(flags & 4) e.push_back(LogEntry{OpM2M, long(l), p, ch, rm::childCode(dim, off)});
            if(flags & 16) e.push_back(LogEntry{OpL2L, long(l), p, ch, rm::childCode(dim, off)});
        }
    }
    if(flags & 8) for(int l = std::max(lstop, 0) ; l <= H - 1 ; ++l){
        for(const Coord& T : mt.cells[size_t(l)]) for(const rm::Pair& p : rm::transferList(dim, l, T, periodic))
            if(mt.has(l, p.src)) e.push_back(LogEntry{OpM2L, long(l), T, p.src, rm::transferCode(dim, p.off)});
    }
    if(flags & 1){
        std::set<LogEntry> pairs;
        for(const auto& kv : mt.leaves){
            e.push_back(LogEntry{OpP2PInner, long(H - 1), kv.first, kv.first, 0});
            for(const rm::Pair& p : rm::neighborList(dim, H - 1, kv.first, periodic))
                if(mt.leaves.count(p.src)) pairs.insert(canonP2P(dim, mt.n, periodic, kv.first, p.off));
        }
        for(const auto& p : pairs){ LogEntry q = p; q.level = H - 1; e.push_back(q); }
    }
    std::sort(e.begin(), e.end());
    return e;
}

inline std::vector<probe::LogEntry> normalizedLog(const probe::Ctx& ctx, const rm::ModelTree& mt, bool periodic){
    std::vector<probe::LogEntry> e;
    for(const auto& x : ctx.log){
        if(x.op == probe::OpP2P){
            probe::LogEntry q = canonP2P(mt.dim, mt.n, periodic, x.tgt, rm::neighborFromCode(mt.dim, x.code));
            q.level = x.level; e.push_back(q);
        }
        else e.push_back(x);
    }
    std::sort(e.begin(), e.end());
    return e;
}

// C12 "each flag triggers only its own operator" and "none above the working level": the entries one execute() call appended to the log
inline std::string checkOpsOfCall(const std::vector<probe::LogEntry>& log, size_t from, int flags, int lstop, int dim){
    static const int flagOfOp[probe::NbOps] = {2, 4, 8, 16, 32, 1, 1, 1};
    for(size_t i = from ; i < log.size() ; ++i){
        const probe::LogEntry& e = log[i];
        if(!(flagOfOp[e.op] & flags)){
            std::ostringstream os; os << "execute() with flags " << flags << " applied " << probe::opName(e.op) << " (" << e.str(dim) << "), an operator that was not requested"; return os.str(); }
        if(e.op <= probe::OpL2P && e.level < lstop){
            std::ostringstream os; os << probe::opName(e.op) << " applied at level " << e.level << " above the upper working level " << lstop << " (" << e.str(dim) << ")"; return os.str(); }
    }
    return "";
}

inline std::string diffLogs(const std::vector<probe::LogEntry>& got, const std::vector<probe::LogEntry>& exp, int dim){
    size_t i = 0, j = 0;
    while(i < got.size() && j < exp.size()){
        if(got[i] == exp[j]){ ++i; ++j; }
        else if(got[i] < exp[j]) return "interaction performed but not implied by the definitions (or performed twice): " + got[i].str(dim);
        else return "interaction implied by the definitions but not performed: " + exp[j].str(dim);
    }
    if(i < got.size()) return "extra interaction: " + got[i].str(dim);
    if(j < exp.size()) return "missing interaction: " + exp[j].str(dim);
    return "";
}

// ---------------------------------------------------------------------------------------------
// Structure (C07), applied to one tree
// ---------------------------------------------------------------------------------------------
template <int Dim, class Tree>
std::string checkStructure(const Tree& tree, const rm::ModelTree& mt, long blockSize, bool oneGroupPerParent, long* nbGroupsOut = nullptr, bool crossLevelCoords = true){
    const int H = mt.H;
    const auto& sp = tree.getSpacialSystem();
    std::ostringstream os;
    std::vector<std::vector<long>> idxPerLevel(static_cast<size_t>(H));
    long nbGroupsTotal = 0;
    for(int l = 0 ; l < H ; ++l){
        const auto& groups = tree.getCellGroupsAtLevel(l);
        long prev = -1;
        for(size_t g = 0 ; g < groups.size() ; ++g){
            const auto& grp = groups[g];
            nbGroupsTotal += 1;
            if(grp.getNbCells() <= 0){ os << "empty cell group at level " << l; return os.str(); }
            if(!oneGroupPerParent && grp.getNbCells() > blockSize){ os << "cell group of " << grp.getNbCells() << " cells exceeds block size " << blockSize << " at level " << l; return os.str(); }
            if(grp.getStartingSpacialIndex() != grp.getCellSpacialIndex(0) || grp.getEndingSpacialIndex() != grp.getCellSpacialIndex(grp.getNbCells() - 1)){
                os << "recorded first/last index of group " << g << " at level " << l << " do not match its content"; return os.str(); }
            for(long i = 0 ; i < grp.getNbCells() ; ++i){
                const long idx = grp.getCellSpacialIndex(i);
                if(idx <= prev){ os << "cell indices not strictly increasing at level " << l << " (group " << g << ", cell " << i << ": " << idx << " after " << prev << ")"; return os.str(); }
                prev = idx;
                idxPerLevel[size_t(l)].push_back(idx);
                // header coordinate is the decoded index and designates a model cell
                const auto bc = sp.getBoxPosFromIndex(idx);
                Coord c{{0,0,0,0}}; for(int d = 0 ; d < Dim ; ++d) c[size_t(d)] = grp.getCellBoxCoord(i)[size_t(d)];
                for(int d = 0 ; d < Dim ; ++d) if(bc[size_t(d)] != c[size_t(d)]){ os << "cell header coordinate differs from its decoded index at level " << l; return os.str(); }
                if(sp.getIndexFromBoxPos(bc) != idx){ os << "index/coordinate round trip fails for cell index " << idx; return os.str(); }
                if((crossLevelCoords || l == H - 1) && !mt.has(l, c)){ os << "cell L" << l << coordStr(c, Dim) << " (index " << idx << ") is not an ancestor of an occupied leaf"; return os.str(); }
            }
        }
        if(long(idxPerLevel[size_t(l)].size()) != long(mt.cells[size_t(l)].size())){
            os << "level " << l << " holds " << idxPerLevel[size_t(l)].size() << " cells, the ancestor closure has " << mt.cells[size_t(l)].size(); return os.str(); }
    }
    // parents of level l+1 == level l
    for(int l = 0 ; l + 1 < H ; ++l){
        std::vector<long> parents;
        for(long idx : idxPerLevel[size_t(l + 1)]){ const long p = sp.getParentIndex(idx); if(parents.empty() || parents.back() != p) parents.push_back(p); }
        if(parents != idxPerLevel[size_t(l)]){ os << "cells of level " << l << " are not exactly the parents of level " << (l + 1); return os.str(); }
    }
    // leaf cell groups <-> particle groups
    const auto& pgs = tree.getParticleGroups();
    const auto& lgs = tree.getCellGroupsAtLevel(H - 1);
    if(pgs.size() != lgs.size()){ os << pgs.size() << " particle groups but " << lgs.size() << " leaf cell groups"; return os.str(); }
    long totalParticles = 0;
    for(size_t g = 0 ; g < pgs.size() ; ++g){
        const auto& pg = pgs[g]; const auto& lg = lgs[g];
        if(pg.getNbLeaves() != lg.getNbCells()){ os << "particle group " << g << " has " << pg.getNbLeaves() << " leaves, cell group has " << lg.getNbCells(); return os.str(); }
        if(pg.getNbLeaves() <= 0){ os << "empty particle group"; return os.str(); }
        if(!oneGroupPerParent && pg.getNbLeaves() > blockSize){ os << "particle group exceeds block size"; return os.str(); }
        if(pg.getStartingSpacialIndex() != pg.getLeafSpacialIndex(0) || pg.getEndingSpacialIndex() != pg.getLeafSpacialIndex(pg.getNbLeaves() - 1)){ os << "particle group first/last index mismatch"; return os.str(); }
        long inGroup = 0;
        for(long i = 0 ; i < pg.getNbLeaves() ; ++i){
            if(pg.getLeafSpacialIndex(i) != lg.getCellSpacialIndex(i)){ os << "leaf " << i << " of particle group " << g << " does not correspond to cell " << i << " of the leaf cell group"; return os.str(); }
            const long np = pg.getNbParticlesInLeaf(i);
            if(np <= 0){ os << "leaf without particle"; return os.str(); }
            Coord c{{0,0,0,0}}; for(int d = 0 ; d < Dim ; ++d) c[size_t(d)] = pg.getLeafBoxCoord(i)[size_t(d)];
            auto it = mt.leaves.find(c);
            if(it == mt.leaves.end()){ os << "leaf " << coordStr(c, Dim) << " is not occupied in the model"; return os.str(); }
            if(long(it->second.size()) != np){ os << "leaf " << coordStr(c, Dim) << " holds " << np << " particles, model " << it->second.size(); return os.str(); }
            if(pg.getLeafSymbData(i).offSet != inGroup){ os << "leaf offset inconsistent"; return os.str(); }
            inGroup += np;
        }
        if(inGroup != pg.getNbParticles()){ os << "particle group count mismatch"; return os.str(); }
        totalParticles += inGroup;
    }
    if(totalParticles != long(mt.leafOf.size())){ os << "tree stores " << totalParticles << " particles, input has " << mt.leafOf.size(); return os.str(); }
    if(tree.getNbParticles() != long(mt.leafOf.size())){ os << "getNbParticles() wrong"; return os.str(); }
    if(nbGroupsOut) *nbGroupsOut = nbGroupsTotal;
    return "";
}

// ---------------------------------------------------------------------------------------------
// Construction (C06): every particle once, right leaf, bit-exact data, zero results/expansions
// ---------------------------------------------------------------------------------------------
template <int Dim, class Tree>
std::string checkConstruction(Tree& tree, const rm::ModelTree& mt, const std::vector<std::vector<double>>& rows, bool expectZero){
    std::string err;
    std::vector<char> seen(mt.leafOf.size(), 0);
    tree.applyToAllLeaves([&](auto&& header, const long int* idx, auto&& data, auto&& rhs){
        if(!err.empty()) return;
        const Coord hc = hcoord<decltype(header), Dim>(header);
        for(long i = 0 ; i < header.nbParticles ; ++i){
            const long id = idx[i];
            if(id < 0 || id >= long(seen.size())){ err = "stored index out of range"; return; }
            if(seen[size_t(id)]){ err = "particle " + std::to_string(id) + " stored twice"; return; }
            seen[size_t(id)] = 1;
            if(mt.leafOf[size_t(id)] != hc){ err = "particle " + std::to_string(id) + " stored in leaf " + coordStr(hc, Dim) + " but its position lies in leaf " + coordStr(mt.leafOf[size_t(id)], Dim); return; }
            for(size_t v = 0 ; v < rows[size_t(id)].size() ; ++v){
                const double got = double(data[v][i]);
                if(std::memcmp(&got, &rows[size_t(id)][v], sizeof(double)) != 0){ err = "data value " + std::to_string(v) + " of particle " + std::to_string(id) + " not bit-identical"; return; }
            }
            if constexpr(std::tuple_size<typename std::decay<decltype(rhs)>::type>::value != 0){
                if(expectZero) for(size_t k = 0 ; k < rhs.size() ; ++k) if(rhs[k] && rhs[k][i] != 0){ err = "result value not zero after construction"; return; }
            }
        }
    });
    if(err.empty()) for(size_t i = 0 ; i < seen.size() ; ++i) if(!seen[i]){ err = "particle " + std::to_string(i) + " missing from the tree"; break; }
    if(err.empty() && expectZero){
        tree.applyToAllCells([&](const long level, auto&& /*header*/, auto&& m, auto&& l){
            if constexpr(std::is_same<typename std::decay<decltype(m)>::type, std::optional<std::reference_wrapper<gf::Val>>>::value){
                if(m && !gf::isZero(m->get())) err = "multipole not zero after construction at level " + std::to_string(level);
            }
            if constexpr(std::is_same<typename std::decay<decltype(l)>::type, std::optional<std::reference_wrapper<gf::Val>>>::value){
                if(l && !gf::isZero(l->get())) err = "local not zero after construction at level " + std::to_string(level);
            }
        });
    }
    return err;
}

// byte snapshot of all symbolic buffers (headers, indices, data): must never change during execution
template <class Tree>
std::vector<unsigned char> symbolicSnapshot(const Tree& tree){
    std::vector<unsigned char> s;
    for(long l = 0 ; l < tree.getHeight() ; ++l) for(const auto& g : tree.getCellGroupsAtLevel(l)){
        const unsigned char* p = g.getDataPtr(); s.insert(s.end(), p, p + g.getDataSize());
    }
    for(const auto& g : tree.getParticleGroups()){ const unsigned char* p = g.getDataPtr(); s.insert(s.end(), p, p + g.getDataSize()); }
    return s;
}
template <class Tree>
std::vector<unsigned char> valueSnapshot(const Tree& tree, bool mult, bool local, bool rhs){
    std::vector<unsigned char> s;
    for(long l = 0 ; l < tree.getHeight() ; ++l) for(const auto& g : tree.getCellGroupsAtLevel(l)){
        if(mult && g.getMultipolePtr()){ const unsigned char* p = g.getMultipolePtr(); s.insert(s.end(), p, p + g.getMultipoleSize()); }
        if(local && g.getLocalPtr()){ const unsigned char* p = g.getLocalPtr(); s.insert(s.end(), p, p + g.getLocalSize()); }
    }
    if(rhs) for(const auto& g : tree.getParticleGroups()){ if(g.getRhsPtr()){ const unsigned char* p = g.getRhsPtr(); s.insert(s.end(), p, p + g.getRhsSize()); } }
    return s;
}

} // namespace fh

#endif
