// Structure-aware decoding of fuzzer bytes into an FmmCase (libFuzzer targets). Occupancy first: the bytes choose the
// tree shape (which leaves are occupied, how many particles each holds, where in the leaf they sit), then the grouping.
// Positions respect the same soundness rule as the rapidcheck generator (refmodel.hpp Geo::locate).
#ifndef VERIF_BYTES_HPP
#define VERIF_BYTES_HPP

#include "fmmcase.hpp"
#include "refmodel.hpp"
#include <fuzzer/FuzzedDataProvider.h>
#include <cmath>

namespace fz {

template <class Real>
inline void addParticle(FmmCase& c, const rm::Geo<Real>& g, const long cc[4], int cls, int frac, bool dyadic, std::vector<Pos4>& out){
    Pos4 p{{0,0,0,0}};
    for(int d = 0 ; d < c.dim ; ++d){
        long double t = 0.5L;
        long cell = cc[d];
        switch(cls){
        case 0: t = 0.5L; break;
        case 1: t = (long double)(((unsigned(frac) * unsigned(d + 3) * 40503u) >> 3) % 1024u + 1u) / 1026.0L; break;
        case 2: t = dyadic ? 0.0L : 1.0L / 1026.0L; break;
        case 3: cell = g.n - 1; t = 1.0L; break;
        case 5: t = dyadic ? 1.0L : 1025.0L / 1026.0L; break;      // next representable value below the upper face of the cell
        case 6: t = dyadic ? 0.0L : 1.0L / 1026.0L; break;         // next representable value above the lower face
        default: t = dyadic ? 1.0L - 1.0L / 1024.0L : 1025.0L / 1026.0L; break;
        }
        long double x = (long double)g.corner[d] + ((long double)cell + t) * (long double)g.leafw[d];
        Real xr = Real(x);
        if(dyadic && cls == 5) xr = std::nextafter(xr, -std::numeric_limits<Real>::infinity());
        if(dyadic && cls == 6) xr = std::nextafter(xr, std::numeric_limits<Real>::infinity());
        for(int it = 0 ; it < 8 ; ++it){
            volatile Real rel = xr - g.corner[d];
            if(rel < 0) xr = std::nextafter(xr, std::numeric_limits<Real>::infinity());
            else if(rel > g.width[d]) xr = std::nextafter(xr, -std::numeric_limits<Real>::infinity());
            else break;
        }
        p[size_t(d)] = double(xr);
    }
    rm::Locate l = g.locate(p);
    if(!l.sound || !l.inBox) for(int d = 0 ; d < c.dim ; ++d) p[size_t(d)] = double(Real((long double)g.corner[d] + ((long double)cc[d] + 0.5L) * (long double)g.leafw[d]));
    out.push_back(p);
}

inline FmmCase decode(const uint8_t* data, size_t size, int dim, int maxH, bool tsm = false, bool periodic = false){
    FuzzedDataProvider fdp(data, size);
    FmmCase c; c.dim = dim; c.real = 0;
    c.height = fdp.ConsumeIntegralInRange<int>(periodic ? 2 : 1, maxH);
    const int boxClass = fdp.ConsumeIntegralInRange<int>(0, 2);
    bool dyadic = true;
    for(int d = 0 ; d < 4 ; ++d){ c.center[size_t(d)] = 0.5; c.width[size_t(d)] = 1; }
    if(boxClass == 1){
        for(int d = 0 ; d < dim ; ++d){ const int e = fdp.ConsumeIntegralInRange<int>(-6, 6); c.width[size_t(d)] = std::ldexp(1.0, e); c.center[size_t(d)] = double(fdp.ConsumeIntegralInRange<int>(-64, 64)) * c.width[size_t(d)] / 8.0; }
    }
    else if(boxClass == 2){
        dyadic = false;
        for(int d = 0 ; d < dim ; ++d){
            c.width[size_t(d)] = (1.0 + double(fdp.ConsumeIntegral<uint16_t>()) / 65536.0) * std::pow(10.0, fdp.ConsumeIntegralInRange<int>(-6, 6));
            c.center[size_t(d)] = (double(fdp.ConsumeIntegral<int16_t>()) / 32768.0) * c.width[size_t(d)] * std::pow(10.0, fdp.ConsumeIntegralInRange<int>(0, 6));
        }
    }
    const int bsClass = fdp.ConsumeIntegralInRange<int>(0, 5);
    const int bsRaw = fdp.ConsumeIntegral<uint8_t>();
    c.oneGroupPerParent = fdp.ConsumeBool() ? 1 : 0;
    const int lstopRaw = fdp.ConsumeIntegralInRange<int>(-1, maxH + 1);
    c.lstop = lstopRaw < 0 ? -100 : lstopRaw;
    if(periodic){ c.lstop = 1; c.extraLevels = fdp.ConsumeIntegralInRange<int>(-1, 3); }
    c.salt = 1 + fdp.ConsumeIntegral<uint16_t>();
    rm::Geo<double> g(c);
    auto fill = [&](std::vector<Pos4>& out){
        const int nbLeaves = fdp.ConsumeIntegralInRange<int>(1, 40);
        for(int l = 0 ; l < nbLeaves && fdp.remaining_bytes() > 0 ; ++l){
            long cc[4] = {0,0,0,0};
            for(int d = 0 ; d < dim ; ++d) cc[d] = long(fdp.ConsumeIntegral<uint8_t>()) % g.n;
            const int mult = 1 + fdp.ConsumeIntegralInRange<int>(0, 3);
            for(int m = 0 ; m < mult ; ++m){
                const int cls = fdp.ConsumeIntegralInRange<int>(0, 6);
                const int frac = fdp.ConsumeIntegral<uint16_t>();
                addParticle<double>(c, g, cc, cls, frac, dyadic, out);
            }
        }
        if(out.empty()){ long cc[4] = {0,0,0,0}; addParticle<double>(c, g, cc, 0, 0, dyadic, out); }
    };
    fill(c.pos);
    if(tsm){ c.tsm = 1; fill(c.tpos); }
    const long N = long(c.pos.size() + c.tpos.size());
    switch(bsClass){
    case 0: c.blockSize = 1; break; case 1: c.blockSize = 2; break; case 2: c.blockSize = 1 + bsRaw % 9; break;
    case 3: c.blockSize = 1 + bsRaw % (N + 2); break; case 4: c.blockSize = 10000000; break; default: c.blockSize = -1; c.envBlock = (bsRaw & 1) ? 1 + bsRaw % 17 : 0; break;
    }
    return c;
}

} // namespace fz

#endif
