#!/bin/bash
# runs every claimed check (tier $1, default quick) and prints one summary line each
T=${1:-quick}
cd /verif
for p in $(python3 -c "import json;print(' '.join(c['property_id'] for c in json.load(open('MANIFEST.json'))['checks']))"); do
  s=$(date +%s)
  out=$(./check $p --tier $T 2>&1); rc=$?
  echo "$p rc=$rc $(( $(date +%s) - s ))s | $(echo "$out" | tail -1)"
  echo "$out" | grep -E "VIOLATION|HARNESS-ERROR|NOTE" | head -5
done
