// rapidcheck-based generator and shrinker for FmmCase. Independent of /repo.
#include "pbt.hpp"
#include <chrono>
#include "../model/refmodel.hpp"

#include <rapidcheck.h>
#include <cmath>
#include <cstdlib>
#include <cstring>
#include <sstream>

namespace pbt {

namespace {

using namespace rc;

// uniform integer in [a,b), independent of the rapidcheck size (shrinks toward a)
inline int U(int a, int b){
    if(b <= a + 1) return a;
    return *gen::resize(kNominalSize, gen::inRange(a, b));
}
// size-scaled integer in [a,b)
inline int S(int a, int b){
    if(b <= a + 1) return a;
    return *gen::inRange(a, b);
}

template <class Real>
Real roundTo(double v){ return Real(v); }

struct PartSpec { int r[4]; int cls; int mask; int frac; };

template <class Real>
void realizePositions(const FmmCase& c, bool dyadic, int dist, const std::vector<PartSpec>& specs,
                      std::vector<Pos4>& out, bool noCoincident, bool interiorOnly, bool noCentre = false, bool exactFacesOnly = false, bool ulpFacesGeneric = false){
    rm::Geo<Real> g(c);
    const long n = g.n;
    out.clear();
    // cluster centres from the first specs
    const int nbClusters = 3;
    for(size_t i = 0 ; i < specs.size() ; ++i){
        const PartSpec& s = specs[i];
        long cc[4] = {0,0,0,0};
        for(int d = 0 ; d < c.dim ; ++d){
            const long u = (long(s.r[d]) * n) >> 16;
            switch(dist){
            default:
            case 0: cc[d] = u; break;                                   // uniform over the leaves
            case 1: {                                                   // clustered
                const PartSpec& ctr = specs[(size_t(s.r[3]) % nbClusters) % specs.size()];
                cc[d] = ((long(ctr.r[d]) * n) >> 16) + (s.r[d] % 5) - 2; break; }
            case 2: cc[d] = (long(specs[0].r[d]) * n) >> 16; break;     // single leaf
            case 3: cc[d] = (long(s.r[0]) * n) >> 16; break;            // diagonal
            case 4: cc[d] = (s.r[0] & 1) ? n - 1 : 0; break;            // two far corners
            case 5: cc[d] = u; break;                                   // lattice (class forced below)
            case 6: cc[d] = (s.r[d] & 1) ? (n - 1 - (s.r[d] >> 1) % 2) : ((s.r[d] >> 1) % 2); break; // box boundary layers
            }
            if(cc[d] < 0) cc[d] = 0;
            if(cc[d] > n - 1) cc[d] = n - 1;
        }
        int cls = s.cls;
        if(dist == 5) cls = 2;
        if(interiorOnly) cls = 1;
        Pos4 p{{0,0,0,0}};
        bool keepUnsound = false;
        for(int d = 0 ; d < c.dim ; ++d){
            const bool special = (s.mask >> d) & 1;
            long double t = 0.5L;
            int k = (special || dist == 5) ? cls : 1;
            if(noCentre && k == 0) k = 1;
            if(exactFacesOnly && !dyadic && k == 3) k = 4;
            // numerical kernels (noCoincident): two particles one ulp apart (5e-324 next to a face at 0) make 1/r overflow - outside the
            // domain in which "agrees with the direct sum" is meaningful; the ulp classes are for the combinatorial properties only
            // exception (ulpFacesGeneric, uniform kernel): in a generic box whose centre is within one width of the origin a particle may sit
            // 1-3 ulps inside a cell face - the library and the kernel then compute the leaf bounds with different roundings and the
            // kernel's local coordinate leaves [-1,1] by a few ulps (its clamp). The model cannot decide the leaf of such a particle
            // (kept although "unsound"): only oracles that do not depend on the leaf (direct sum) may use these cases.
            bool ulpGeneric = false;
            if(noCoincident && (k == 6 || k == 7) && ulpFacesGeneric && !dyadic && std::fabs(c.center[d]) <= c.width[d]) ulpGeneric = true;
            if(noCoincident && k == 6 && !ulpGeneric) k = 4;
            if(noCoincident && k == 7 && !ulpGeneric) k = 2;
            long double fr = (long double)(((s.frac * (d + 1) * 2654435761u) >> 7) % 1024 + 1) / 1026.0L;
            if(noCentre && fr == 0.5L) fr = 514.0L / 1026.0L;
            switch(k){
            case 0: t = 0.5L; break;
            default:
            case 1: t = fr; break;
            case 2: t = dyadic ? 0.0L : 1.0L / 1026.0L; break;
            case 3: cc[d] = n - 1; t = 1.0L; break;
            case 4: t = dyadic ? 1.0L - 1.0L / 1024.0L : 1025.0L / 1026.0L; break;
            case 6: t = (dyadic || ulpGeneric) ? 1.0L : 1025.0L / 1026.0L; break;       // the representable value(s) next below the upper face of the cell (set below)
            case 7: t = (dyadic || ulpGeneric) ? 0.0L : 1.0L / 1026.0L; break;          // the representable value(s) next above the lower face of the cell
            }
            if(interiorOnly){ t = 0.07L + 0.86L * fr; if(std::fabs((double)(t - 0.5L)) < 0.03) t += 0.06L; }
            long double x = (long double)g.corner[d] + ((long double)cc[d] + t) * (long double)g.leafw[d];
            Real xr = Real(x);
            if(dyadic && !interiorOnly && k == 6) xr = std::nextafter(xr, -std::numeric_limits<Real>::infinity());
            if(dyadic && !interiorOnly && k == 7) xr = std::nextafter(xr, std::numeric_limits<Real>::infinity());
            if(ulpGeneric && !interiorOnly){
                // only faces whose coordinate is small compared with the leaf width (the overshoot of the kernel's local coordinate is
                // ~ eps |x| / (leaf width / 2); beyond 10 eps the kernel's own assertion fires: known finding F-UNIF-ROOTS-ASSERT, excluded
                // by construction), and not next to 0 (denormal distances between two such particles)
                const double ax = std::fabs((double)xr), lw = double(g.leafw[d]);
                if(ax < 1e-3 * lw || ax > 1.5 * lw){ ulpGeneric = false; xr = Real((long double)g.corner[d] + ((long double)cc[d] + 0.37L) * (long double)g.leafw[d]); }
                else{ xr = std::nextafter(xr, (k == 6 ? -1 : 1) * std::numeric_limits<Real>::infinity()); keepUnsound = true; }
            }
            // documented precondition, evaluated as the library will evaluate it
            for(int it = 0 ; it < 8 ; ++it){
                volatile Real rel = xr - g.corner[d];
                if(rel < 0) xr = std::nextafter(xr, std::numeric_limits<Real>::infinity());
                else if(rel > g.width[d]) xr = std::nextafter(xr, -std::numeric_limits<Real>::infinity());
                else break;
            }
            p[d] = double(xr);
        }
        rm::Locate l = g.locate(p);
        if((!l.sound && !keepUnsound) || !l.inBox){
            // fall back to the centre of the intended leaf (always unambiguous)
            for(int d = 0 ; d < c.dim ; ++d){
                long double x = (long double)g.corner[d] + ((long double)cc[d] + (noCentre ? 0.25L + 0.0625L * d : 0.5L)) * (long double)g.leafw[d];
                p[d] = double(Real(x));
            }
        }
        if(s.cls == 5 && i > 0 && !noCoincident) p = out[i - 1 - (size_t(s.frac) % i) / 2];   // coincident with an earlier particle
        out.push_back(p);
    }
    if(noCoincident){
        // remove exact duplicates (keep first)
        std::vector<Pos4> uniq;
        for(const auto& p : out){
            bool dup = false;
            for(const auto& q : uniq){ bool same = true; for(int d = 0 ; d < c.dim ; ++d) if(p[d] != q[d]) same = false; if(same){ dup = true; break; } }
            if(!dup) uniq.push_back(p);
        }
        out.swap(uniq);
    }
}

std::vector<PartSpec> genSpecs(int maxN){
    // length scales with the rapidcheck size, shrinks by removing elements
    const double scale = double(maxN) / double(kNominalSize);
    auto specGen = gen::map(gen::tuple(gen::resize(kNominalSize, gen::inRange(0, 65536)), gen::resize(kNominalSize, gen::inRange(0, 65536)),
                                       gen::resize(kNominalSize, gen::inRange(0, 65536)), gen::resize(kNominalSize, gen::inRange(0, 65536)),
                                       gen::resize(kNominalSize, gen::inRange(0, 8)), gen::resize(kNominalSize, gen::inRange(0, 16)),
                                       gen::resize(kNominalSize, gen::inRange(0, 1 << 20))),
                            [](const std::tuple<int,int,int,int,int,int,int>& t){
        PartSpec s; s.r[0] = std::get<0>(t); s.r[1] = std::get<1>(t); s.r[2] = std::get<2>(t); s.r[3] = std::get<3>(t);
        s.cls = std::get<4>(t); s.mask = std::get<5>(t); s.frac = std::get<6>(t); return s; });
    auto v = *gen::scale(scale, gen::container<std::vector<PartSpec>>(specGen));
    if(v.empty()){ PartSpec s; memset(&s, 0, sizeof s); v.push_back(s); }
    return v;
}

void genBox(FmmCase& c, const GenCfg& g, bool& dyadic){
    int boxClass = U(0, g.genericBoxes ? 4 : 2);
    dyadic = true;
    if(boxClass == 0){
        for(int d = 0 ; d < 4 ; ++d){ c.center[d] = 0.5; c.width[d] = 1; }
    }
    else if(boxClass == 1){
        const int wd = g.widthDecades;
        const int e0 = U(0, 2 * wd + 1) - wd;
        for(int d = 0 ; d < 4 ; ++d){
            const int e = g.cubic ? e0 : (U(0, 2) ? e0 : U(0, 2 * wd + 1) - wd);
            c.width[d] = std::ldexp(1.0, e);
            c.center[d] = double(U(0, 129) - 64) * c.width[d] / 8.0;
        }
    }
    else{
        dyadic = false;
        const double m0 = 1.0 + double(U(0, 1 << 20)) / double(1 << 20);
        const int wd = g.widthDecades;
        const int k0 = U(0, 2 * wd + 1) - wd;
        for(int d = 0 ; d < 4 ; ++d){
            double w = g.cubic ? m0 * std::pow(10.0, k0) : (1.0 + double(U(0, 1 << 20)) / double(1 << 20)) * std::pow(10.0, U(0, 2) ? k0 : U(0, 2 * wd + 1) - wd);
            const int j = c.real == 1 ? U(0, 2) : U(0, 7);
            double u = (double(U(0, 2001)) - 1000.0) / 1000.0;
            double ctr = u * w * std::pow(10.0, j);
            if(boxClass == 3 && d == 0) ctr = 0;     // box centred on the origin in one direction (corner = -w/2)
            if(c.real == 1){ w = double(float(w)); ctr = double(float(ctr)); }
            c.width[d] = w; c.center[d] = ctr;
        }
        if(g.cubic) for(int d = 1 ; d < 4 ; ++d) c.width[d] = c.width[0];
    }
}

long genBlock(const GenCfg& g, long N, long& env){
    env = 0;
    const int cls = U(0, g.autoBlock ? 8 : 6);
    switch(cls){
    case 0: return 1;
    case 1: return 2;
    case 2: return 3;
    case 3: return 1 + U(0, int(std::min<long>(N + 2, 60)));
    case 4: return 1 + U(0, int(N + 2));
    case 5: return 10000000L;
    case 6: return -1;
    default: env = 1 + U(0, int(std::min<long>(N + 2, 40))); return -1;
    }
}

FmmCase genCase(const GenCfg& g){
    FmmCase c;
    c.dim = g.dim; c.real = g.real;
    const int minH = g.periodic ? std::max(2, g.minH) : g.minH;
    c.height = U(minH, g.maxH + 1);
    bool dyadic = true;
    genBox(c, g, dyadic);
    const int dist = U(0, 7);
    // keep the expected cost bounded: fewer particles on deep, high dimensional trees
    int maxN = g.maxN;
    auto specs = genSpecs(maxN);
    if(c.real == 1) realizePositions<float>(c, dyadic, dist, specs, c.pos, g.noCoincident, g.interiorOnly, g.noCentre, g.exactFacesOnly, g.ulpFacesGeneric);
    else realizePositions<double>(c, dyadic, dist, specs, c.pos, g.noCoincident, g.interiorOnly, g.noCentre, g.exactFacesOnly, g.ulpFacesGeneric);
    if(g.tsm){
        c.tsm = 1;
        const int tdist = U(0, 7);
        auto tspecs = genSpecs(maxN);
        const int rel = U(0, 4);   // 0 independent, 1 identical positions, 2 disjoint halves, 3 single leaf for one side
        if(rel == 1){ c.tpos = c.pos; }
        else{
            if(c.real == 1) realizePositions<float>(c, dyadic, rel == 3 ? 2 : tdist, tspecs, c.tpos, g.noCoincident, g.interiorOnly, g.noCentre, g.exactFacesOnly, g.ulpFacesGeneric);
            else realizePositions<double>(c, dyadic, rel == 3 ? 2 : tdist, tspecs, c.tpos, g.noCoincident, g.interiorOnly, g.noCentre, g.exactFacesOnly, g.ulpFacesGeneric);
            if(rel == 2){
                // sources in the lower half of dimension 0, targets in the upper half (mirror when needed)
                auto mirror = [&](std::vector<Pos4>& v, bool upper){
                    for(auto& p : v){
                        const double lo = c.center[0] - c.width[0] / 2, mid = c.center[0];
                        const bool isUpper = p[0] >= mid;
                        if(isUpper != upper){
                            double q = upper ? p[0] + c.width[0] / 2 : p[0] - c.width[0] / 2;
                            if(c.real == 1) q = double(float(q));
                            p[0] = q;
                        }
                        (void)lo;
                    }
                };
                mirror(c.pos, false); mirror(c.tpos, true);
            }
        }
    }
    if(g.emptySets && U(0, 40) == 0){
        // an empty particle set is a valid input (the tree constructor has an explicit branch for it)
        const int which = g.tsm ? U(0, 3) : 0;
        if(which == 0 || which == 2) c.pos.clear();
        if(g.tsm && (which == 1 || which == 2)) c.tpos.clear();
    }
    c.nextra = g.maxNextra > 0 ? U(0, g.maxNextra + 1) : 0;
    if(c.nextra){
        auto fill = [&](std::vector<double>& ex, size_t n){
            ex.resize(n * size_t(c.nextra));
            const uint64_t s0 = uint64_t(U(0, 1 << 30));
            for(size_t i = 0 ; i < ex.size() ; ++i){
                // values that are not exactly representable in float expose a conversion through the wrong type
                const uint64_t h = gf::splitmix(s0 + i);
                double v = double(int64_t(h % 2000001) - 1000000) / 997.0 + 1e-7 * double(h % 1013);
                if(h % 11 == 0) v = double(int64_t(h % 257) - 128);
                ex[i] = v;
            }
        };
        fill(c.extra, c.pos.size());
        if(g.tsm) fill(c.textra, c.tpos.size());
    }
    const long N = long(c.pos.size() + c.tpos.size());
    c.blockSize = genBlock(g, N, c.envBlock);
    c.oneGroupPerParent = U(0, 2);
    if(g.twoGroupings){
        c.blockSize2 = genBlock(g, N, c.envBlock2);
        c.oneGroupPerParent2 = U(0, 2);
    }
    if(g.periodic){
        c.extraLevels = U(0, g.maxExtraLevels + 2) - 1;
        c.lstop = 1;
    }
    if(g.lstops && U(0, 3)) c.lstop = U(0, c.height + 2);
    if(g.histories && (g.historyOneIn <= 1 || U(0, g.historyOneIn) == 0)){
        // ordered partition of the far-field chain P2M<=M2M<=M2L<=L2L<=L2P into calls; P2P anywhere
        const int P2P = 1, chain[5] = {2, 4, 8, 16, 32};
        std::vector<int> calls; int cur = 0;
        for(int i = 0 ; i < 5 ; ++i){ cur |= chain[i]; if(i == 4 || U(0, 2)){ calls.push_back(cur); cur = 0; } }
        const int where = U(0, int(calls.size()) + 1);
        if(where == int(calls.size()) || U(0, 2)){ calls.insert(calls.begin() + where, P2P); }
        else calls[where] |= P2P;
        c.history = calls;
    }
    int nbExec = 0, execs[4];
    for(int e = 0 ; e < 4 ; ++e) if(g.executors & (1 << e)) execs[nbExec++] = e;
    c.executor = nbExec ? execs[U(0, nbExec)] : 0;
    c.threads = (g.executors & ~1) ? 1 + U(0, g.maxThreads) : 1;
    if((g.executors & ~1) && g.schedules && g.varyThreads && U(0, 3) == 0) c.threadsCtor = 1 + U(0, g.maxThreads);
    if(g.schedules){
        const int strategy = U(0, 8);
        c.sched = *gen::scale(0.6, gen::container<std::vector<uint32_t>>(gen::resize(kNominalSize, gen::arbitrary<uint32_t>())));
        c.sched.insert(c.sched.begin(), uint32_t(strategy));
    }
    if(g.cycles){
        const int nbCycles = 1 + U(0, g.maxCycles);
        for(int cy = 0 ; cy < nbCycles ; ++cy){
            std::vector<MoveOp> ops;
            const int mode = U(0, 5);      // 0 jitter few, 1 teleport few, 2 gather all into one leaf, 3 scatter all, 4 no move
            const int sets = g.tsm ? 2 : 1;
            for(int set = 0 ; set < sets ; ++set){
                const std::vector<Pos4>& base = set ? c.tpos : c.pos;
                if(base.empty() || mode == 4) continue;
                const int nb = (mode >= 2) ? int(base.size()) : 1 + S(0, int(base.size()));
                auto mspecs = *gen::container<std::vector<PartSpec>>(size_t(nb), gen::map(gen::tuple(gen::resize(kNominalSize, gen::inRange(0, 65536)), gen::resize(kNominalSize, gen::inRange(0, 65536)),
                        gen::resize(kNominalSize, gen::inRange(0, 65536)), gen::resize(kNominalSize, gen::inRange(0, 65536)), gen::resize(kNominalSize, gen::inRange(0, 1 << 20))),
                        [](const std::tuple<int,int,int,int,int>& t){ PartSpec s; s.r[0] = std::get<0>(t); s.r[1] = std::get<1>(t); s.r[2] = std::get<2>(t); s.r[3] = std::get<3>(t); s.cls = 1; s.mask = 0; s.frac = std::get<4>(t); return s; }));
                std::vector<Pos4> np;
                const int d2 = (mode == 2) ? 2 : 0;
                if(c.real == 1) realizePositions<float>(c, dyadic, d2, mspecs, np, false, g.interiorOnly, g.noCentre, g.exactFacesOnly);
                else realizePositions<double>(c, dyadic, d2, mspecs, np, false, g.interiorOnly, g.noCentre, g.exactFacesOnly);
                for(int i = 0 ; i < nb && i < int(np.size()) ; ++i){
                    MoveOp m; m.set = set;
                    m.index = (mode >= 2) ? long(i) : long(size_t(mspecs[size_t(i)].r[3]) % base.size());
                    m.pos = np[size_t(i)];
                    ops.push_back(m);
                }
            }
            c.cycles.push_back(ops);
        }
    }
    if(g.queries){
        auto q = *gen::scale(0.5, gen::container<std::vector<int>>(gen::resize(kNominalSize, gen::inRange(-3, 1 << 20))));
        for(int x : q) c.queries.push_back(long(x));
    }
    if(g.charges){
        const uint64_t s0 = uint64_t(U(0, 1 << 30));
        auto fill = [&](std::vector<double>& ch, size_t n, uint64_t off){
            ch.resize(n);
            for(size_t i = 0 ; i < n ; ++i){
                const uint64_t h = gf::splitmix(s0 + off + i);
                double q = 1e-3 + double(h % 999000) / 1e6;
                if((h >> 40) & 1) q = -q;
                if(c.real == 1) q = double(float(q));
                ch[i] = q;
            }
        };
        fill(c.charges, c.pos.size(), 0);
        if(g.tsm) fill(c.tcharges, c.tpos.size(), 1u << 20);
    }
    c.salt = uint64_t(U(1, 1 << 30));
    c.variant = g.variants > 1 ? U(0, g.variants) : 0;
    return c;
}

} // anonymous namespace

RunResult run(const std::string& name, const GenCfg& cfg, const Prop& prop,
              unsigned long seed, int cases, int maxSize){
    RunResult res;
    {
        std::ostringstream os;
        os << "seed=" << seed << " max_success=" << cases << " max_size=" << maxSize << " max_discard_ratio=20";
        if(getenv("VERIF_NOSHRINK")) os << " noshrink=1";
        setenv("RC_PARAMS", os.str().c_str(), 1);
    }
    bool inShrink = false;
    // shrinking is bounded by a wall-clock budget (VERIF_SHRINK_BUDGET seconds, default 120): past it every further candidate is
    // accepted without being evaluated, so rapidcheck stops at the smallest failing case found so far. The budget only limits how
    // small the replay file gets; the verdict (a failing case exists) was reached before shrinking began.
    const double shrinkBudget = getenv("VERIF_SHRINK_BUDGET") ? atof(getenv("VERIF_SHRINK_BUDGET")) : 120.0;
    std::chrono::steady_clock::time_point shrinkStart;
    const bool ok = rc::check(name, [&](){
        const FmmCase c = genCase(cfg);
        if(inShrink) res.shrinkSteps += 1; else res.executed += 1;
        if(inShrink && std::chrono::duration<double>(std::chrono::steady_clock::now() - shrinkStart).count() > shrinkBudget) return;
        const std::string msg = prop(c);
        if(msg.empty()) return;
        if(msg.compare(0, 4, "SKIP") == 0) RC_DISCARD(msg);
        // rapidcheck keeps shrinking from the last failing candidate, so the last failure recorded
        // here is the minimal one it found
        res.failing = c;
        res.message = msg;
        if(!inShrink) shrinkStart = std::chrono::steady_clock::now();
        inShrink = true;
        RC_FAIL(msg);
    });
    res.ok = ok;
    return res;
}

} // namespace pbt
