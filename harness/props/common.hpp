// Shared scaffolding of the property binaries: statistics, command line, run/replay loop.
#ifndef VERIF_COMMON_HPP
#define VERIF_COMMON_HPP

#include "../model/fmmcase.hpp"
#include "../model/json.hpp"
#include "../pbt/pbt.hpp"

#include <map>
#include <set>
#include <string>
#include <vector>
#include <cstdio>
#include <cstdlib>
#include <cstring>
#include <iostream>
#include <functional>
#include <unistd.h>
#include <sys/wait.h>
#if defined(__SANITIZE_ADDRESS__)
#include <sanitizer/lsan_interface.h>
#endif

namespace hc {

// Counters describing what the generator actually produced (dumped to --out).
struct Stats {
    long evaluations = 0;
    long skipped = 0;
    long nontrivial = 0;
    std::set<uint64_t> distinctNontrivial;
    std::map<std::string, long> classes;
    std::vector<std::string> samples;
    std::vector<std::string> records;      // free-form per-case records for cross-binary relations evaluated by the driver
    std::string outPath;
    long sinceDump = 0;

    void cls(const std::string& k, long n = 1){ classes[k] += n; }
    void noteNontrivial(uint64_t hash, const FmmCase& c){
        nontrivial += 1;
        if(distinctNontrivial.insert(hash).second && samples.size() < 6 && (distinctNontrivial.size() % 7 == 1)) samples.push_back(c.brief());
    }
    vj::Value toJson() const {
        vj::Value j = vj::Value::object();
        j["evaluations"] = evaluations; j["skipped"] = skipped; j["nontrivial"] = nontrivial;
        j["distinct_nontrivial"] = (long)distinctNontrivial.size();
        vj::Value c = vj::Value::object(); for(const auto& kv : classes) c[kv.first] = kv.second; j["classes"] = c;
        vj::Value s = vj::Value::array(); for(const auto& x : samples) s.push(vj::Value(x)); j["samples"] = s;
        // hashes allow the driver to count distinct cases across worker processes
        if(!records.empty()){ vj::Value r = vj::Value::array(); for(const auto& x : records) r.push(vj::Value(x)); j["records"] = r; }
        vj::Value h = vj::Value::array(); long k = 0; for(uint64_t x : distinctNontrivial){ if(k++ > 200000) break; h.push(vj::Value((long long)(x >> 1))); } j["hashes"] = h;
        return j;
    }
    void dump() const { if(!outPath.empty()) vj::writeFile(outPath, toJson()); }
    void maybeDump(){ if(++sinceDump >= 500){ sinceDump = 0; dump(); } }
};

inline Stats& stats(){ static Stats s; return s; }

inline uint64_t hashCase(const FmmCase& c){
    // structural hash of everything that defines the case
    const std::string s = c.toJson().dump();
    uint64_t h = 1469598103934665603ull;
    for(unsigned char ch : s){ h ^= ch; h *= 1099511628211ull; }
    return h;
}

struct Args {
    std::string prop, out, fail, replay, cur, mode;
    unsigned long seed = 1;
    int cases = 100, size = 100;
    std::map<std::string, std::string> kv;
    std::string get(const std::string& k, const std::string& d = "") const { auto it = kv.find(k); return it == kv.end() ? d : it->second; }
    long getInt(const std::string& k, long d) const { auto it = kv.find(k); return it == kv.end() ? d : atol(it->second.c_str()); }
};

inline Args parseArgs(int argc, char** argv){
    Args a;
    for(int i = 1 ; i < argc ; ++i){
        std::string k = argv[i];
        if(k.rfind("--", 0) == 0 && i + 1 < argc){
            std::string v = argv[++i]; k = k.substr(2); a.kv[k] = v;
            if(k == "prop") a.prop = v; else if(k == "out") a.out = v; else if(k == "fail") a.fail = v;
            else if(k == "replay") a.replay = v; else if(k == "cur") a.cur = v; else if(k == "mode") a.mode = v;
            else if(k == "seed") a.seed = strtoul(v.c_str(), nullptr, 10);
            else if(k == "cases") a.cases = atoi(v.c_str()); else if(k == "size") a.size = atoi(v.c_str());
        }
    }
    return a;
}

// Runs the campaign or the replay. The property returns "" / "SKIP..." / failure text.
// Exit codes: 0 held, 1 failure (FAIL line printed, case written to --fail), 3 harness/model error.
// optional check over the whole campaign (aggregated relations); returns a failure text and the cases to store
using FinalCheck = std::function<std::string(std::vector<FmmCase>&)>;

inline int runMain(const Args& a, const pbt::GenCfg& cfg, const pbt::Prop& prop, const FinalCheck& finalCheck = FinalCheck()){
    stats().outPath = a.out;
    const bool isolate = a.getInt("isolate", 0) != 0;
    // isolate mode: every evaluation runs in a forked child so that an abort (assert, sanitizer) is an
    // ordinary failure that rapidcheck can shrink
    auto isolated = [&](const FmmCase& c) -> std::string {
        int fd[2];
        if(pipe(fd) != 0) return prop(c);
        fflush(stdout); fflush(stderr);
        const pid_t pid = fork();
        if(pid == 0){
            close(fd[0]);
            std::string r = prop(c);
            if(a.prop == "C15"){
                if(!r.empty() && r.compare(0, 4, "SKIP") != 0 && r.compare(0, 6, "crash:") != 0) r.clear();
#if defined(__SANITIZE_ADDRESS__)
                if(r.empty() && __lsan_do_recoverable_leak_check()) r = "crash: LeakSanitizer reports memory leaked by this case";
#endif
            }
            if(r.size() > 4000) r.resize(4000);
            ssize_t w = write(fd[1], r.data(), r.size()); (void)w;
            close(fd[1]);
            _exit(0);
        }
        close(fd[1]);
        std::string r; char buf[512]; ssize_t n;
        while((n = read(fd[0], buf, sizeof buf)) > 0) r.append(buf, size_t(n));
        close(fd[0]);
        int status = 0; waitpid(pid, &status, 0);
        if(WIFEXITED(status) && WEXITSTATUS(status) == 0) return r;
        return "crash: the case aborts the process (assertion or sanitizer report)";
    };
    auto wrapped = [&](const FmmCase& c) -> std::string {
        if(!a.cur.empty()) vj::writeFile(a.cur, c.toJson());   // survives a sanitizer abort
        stats().evaluations += 1;
        std::string r = isolate ? isolated(c) : prop(c);
        if(a.prop == "C15" && !isolate){
            // C15 owns memory errors, undefined behaviour, leaks and assertion failures only (they abort the process or are found by
            // the leak check below); a semantic oracle that fails here belongs to another property and is merely counted
            if(!r.empty() && r.compare(0, 4, "SKIP") != 0 && r.compare(0, 6, "crash:") != 0){ stats().cls("semantic-oracle-failed-(owned-by-another-property)"); r.clear(); }
#if defined(__SANITIZE_ADDRESS__)
            if(r.empty() && __lsan_do_recoverable_leak_check()) r = "crash: LeakSanitizer reports memory leaked by this case";
#endif
        }
        if(r.compare(0, 4, "SKIP") == 0) stats().skipped += 1;
        else if(!r.empty() && r.compare(0, 11, "MODEL-ERROR") != 0 && !a.fail.empty() && a.replay.empty()){
            // every failing candidate is stored at once: the last one written is the most shrunk one, and a campaign that is
            // stopped while shrinking (time budget) still leaves a failing case behind
            vj::writeFile(a.fail, c.toJson());
            std::cout << "FAIL " << r << std::endl;
        }
        stats().maybeDump();
        return r;
    };
    auto runFinal = [&]() -> int {
        if(!finalCheck) return 0;
        std::vector<FmmCase> worst;
        const std::string r = finalCheck(worst);
        stats().dump();
        if(r.empty()) return 0;
        if(!a.fail.empty()){
            vj::Value j = vj::Value::object(); vj::Value arr = vj::Value::array();
            for(const auto& w : worst) arr.push(w.toJson());
            j["multi"] = arr;
            vj::writeFile(a.fail, j);
        }
        std::cout << "FAIL " << r << std::endl;
        return 1;
    };
    if(!a.replay.empty()){
        const vj::Value jv = vj::parseFile(a.replay);
        if(jv.has("multi")){
            // a stored campaign sample: every case must pass, then the aggregated relation is evaluated on the sample
            for(const auto& jc : jv.at("multi").arr){
                const std::string r = wrapped(FmmCase::fromJson(jc));
                if(!r.empty() && r.compare(0, 4, "SKIP") != 0){ std::cout << "FAIL " << r << std::endl; return 1; }
            }
            const int rf = runFinal();
            if(rf == 0) std::cout << "REPLAY-OK" << std::endl;
            return rf;
        }
        FmmCase c = FmmCase::fromJson(jv);
        std::string r = wrapped(c);
        stats().dump();
        if(r.empty() || r.compare(0, 4, "SKIP") == 0){ std::cout << "REPLAY-OK " << r << std::endl; return 0; }
        if(r.compare(0, 11, "MODEL-ERROR") == 0){ std::cout << r << std::endl; return 3; }
        std::cout << "FAIL " << r << std::endl;
        return 1;
    }
    pbt::RunResult res = pbt::run(a.prop, cfg, wrapped, a.seed, a.cases, a.size);
    stats().dump();
    if(res.ok){
        const int rf = runFinal();
        if(rf != 0) return rf;
        std::cout << "HELD cases=" << res.executed << std::endl; return 0;
    }
    if(res.message.empty()){ std::cout << "INCONCLUSIVE generator gave up (too many discards)" << std::endl; return 0; }
    if(res.message.compare(0, 11, "MODEL-ERROR") == 0){ std::cout << res.message << std::endl; return 3; }
    if(!a.fail.empty()) vj::writeFile(a.fail, res.failing.toJson());
    std::cout << "FAIL " << res.message << "\nSHRUNK after " << res.shrinkSteps << " steps: " << res.failing.brief() << std::endl;
    return 1;
}

// libFuzzer targets: evaluate one decoded case; a failing oracle stores the decoded case and traps (the saved artifact
// and the JSON case are both replayable)
inline void fuzzInit(){
    static bool done = false;
    if(done) return;
    done = true;
    if(const char* p = getenv("VERIF_FUZZ_STATS")) stats().outPath = p;
    atexit([](){ stats().dump(); });
}
inline int fuzzOne(const FmmCase& c, const pbt::Prop& prop){
    fuzzInit();
    stats().evaluations += 1;
    const std::string r = prop(c);
    if(r.empty()){ stats().maybeDump(); return 0; }
    if(r.compare(0, 4, "SKIP") == 0){ stats().skipped += 1; return -1; }      // not added to the corpus
    if(r.compare(0, 11, "MODEL-ERROR") == 0){ fprintf(stderr, "%s\n", r.c_str()); stats().dump(); _exit(3); }
    if(const char* d = getenv("VERIF_FUZZ_OUT")){
        char name[64]; snprintf(name, sizeof name, "/fail-%016llx.json", (unsigned long long)hashCase(c));
        vj::writeFile(std::string(d) + name, c.toJson());
    }
    fprintf(stderr, "FAIL %s\n", r.c_str());
    stats().dump();
    __builtin_trap();
}

} // namespace hc

#endif
