// Runtime description of one generated case (the unit that is generated, shrunk, replayed).
// Plain data + JSON (de)serialisation. No tbfmm and no rapidcheck dependency.
#ifndef VERIF_FMMCASE_HPP
#define VERIF_FMMCASE_HPP

#include "json.hpp"
#include <array>
#include <vector>
#include <string>
#include <cstdint>

using Pos4 = std::array<double, 4>;

struct MoveOp {            // C13: one edit of a particle (index = insertion index)
    int set = 0;           // 0 = single tree / source set, 1 = target set
    long index = 0;
    Pos4 pos{{0,0,0,0}};
};

struct FmmCase {
    int dim = 3;
    int height = 3;
    int real = 0;                       // 0 = double, 1 = float coordinates
    Pos4 center{{0.5,0.5,0.5,0.5}};
    Pos4 width{{1,1,1,1}};
    std::vector<Pos4> pos;              // single tree: all particles; TSM: sources
    std::vector<Pos4> tpos;             // TSM: targets
    std::vector<double> extra;          // pos.size()*nextra extra data values (row per particle)
    std::vector<double> textra;
    int nextra = 0;
    long blockSize = 4;                 // >= 1 explicit, -1 = automatic
    long envBlock = 0;                  // > 0: TBFMM_BLOCK_SIZE for the automatic size
    int oneGroupPerParent = 0;
    long blockSize2 = 0;                // second grouping (C08); 0 = none
    long envBlock2 = 0;
    int oneGroupPerParent2 = 0;
    int lstop = -100;                   // upper working level; -100 = library default
    int extraLevels = -2;               // periodic: extra levels >= -1 ; -2 = not periodic
    int tsm = 0;
    int executor = 0;                   // 0 sequential, 1 openmp, 2 specx, 3 starpu
    int threads = 1;
    int threadsCtor = 0;                // worker count while the executor object is constructed (0 = same as threads)
    std::vector<int> history;           // C12: flag sets, in call order (empty = one full call)
    std::vector<uint32_t> sched;        // C03: scheduler decisions
    std::vector<std::vector<MoveOp>> cycles; // C13: per cycle list of edits
    uint64_t salt = 1;
    int variant = 0;                    // free selector (ordering, kernel order ...)
    std::vector<long> queries;          // C16: extra lookup indices
    std::vector<double> charges;        // numerical kernels
    std::vector<double> tcharges;

    static vj::Value posToJson(const std::vector<Pos4>& v, int dim){
        vj::Value a = vj::Value::array();
        for(const auto& p : v){ vj::Value q = vj::Value::array(); for(int d = 0 ; d < dim ; ++d) q.push(p[d]); a.push(q); }
        return a;
    }
    static std::vector<Pos4> posFromJson(const vj::Value& a){
        std::vector<Pos4> r;
        for(const auto& q : a.arr){ Pos4 p{{0,0,0,0}}; for(size_t d = 0 ; d < q.arr.size() && d < 4 ; ++d) p[d] = q.arr[d].asNum(); r.push_back(p); }
        return r;
    }
    template <class T>
    static vj::Value vecToJson(const std::vector<T>& v){ vj::Value a = vj::Value::array(); for(const auto& x : v) a.push(vj::Value(x)); return a; }

    vj::Value toJson() const {
        vj::Value j = vj::Value::object();
        j["dim"] = dim; j["height"] = height; j["real"] = real;
        { vj::Value c = vj::Value::array(), w = vj::Value::array();
          for(int d = 0 ; d < dim ; ++d){ c.push(center[d]); w.push(width[d]); }
          j["center"] = c; j["width"] = w; }
        j["pos"] = posToJson(pos, dim);
        if(tsm) j["tpos"] = posToJson(tpos, dim);
        j["nextra"] = nextra;
        if(nextra){ j["extra"] = vecToJson(extra); if(tsm) j["textra"] = vecToJson(textra); }
        j["blockSize"] = blockSize; j["envBlock"] = envBlock; j["oneGroupPerParent"] = oneGroupPerParent;
        if(blockSize2){ j["blockSize2"] = blockSize2; j["envBlock2"] = envBlock2; j["oneGroupPerParent2"] = oneGroupPerParent2; }
        j["lstop"] = lstop; j["extraLevels"] = extraLevels; j["tsm"] = tsm;
        j["executor"] = executor; j["threads"] = threads;
        if(threadsCtor) j["threadsCtor"] = threadsCtor;
        if(!history.empty()) j["history"] = vecToJson(history);
        if(!sched.empty()){ vj::Value a = vj::Value::array(); for(auto x : sched) a.push(vj::Value((long long)x)); j["sched"] = a; }
        if(!cycles.empty()){
            vj::Value cs = vj::Value::array();
            for(const auto& cyc : cycles){
                vj::Value c = vj::Value::array();
                for(const auto& m : cyc){
                    vj::Value o = vj::Value::object(); o["set"] = m.set; o["index"] = m.index;
                    vj::Value p = vj::Value::array(); for(int d = 0 ; d < dim ; ++d) p.push(m.pos[d]); o["pos"] = p; c.push(o);
                }
                cs.push(c);
            }
            j["cycles"] = cs;
        }
        j["salt"] = (long long)salt; j["variant"] = variant;
        if(!queries.empty()) j["queries"] = vecToJson(queries);
        if(!charges.empty()) j["charges"] = vecToJson(charges);
        if(!tcharges.empty()) j["tcharges"] = vecToJson(tcharges);
        return j;
    }

    static FmmCase fromJson(const vj::Value& j){
        FmmCase c;
        c.dim = int(j.getInt("dim", 3)); c.height = int(j.getInt("height", 3)); c.real = int(j.getInt("real", 0));
        if(j.has("center")) for(size_t d = 0 ; d < j.at("center").arr.size() && d < 4 ; ++d) c.center[d] = j.at("center").arr[d].asNum();
        if(j.has("width")) for(size_t d = 0 ; d < j.at("width").arr.size() && d < 4 ; ++d) c.width[d] = j.at("width").arr[d].asNum();
        if(j.has("pos")) c.pos = posFromJson(j.at("pos"));
        if(j.has("tpos")) c.tpos = posFromJson(j.at("tpos"));
        c.nextra = int(j.getInt("nextra", 0));
        if(j.has("extra")) for(const auto& x : j.at("extra").arr) c.extra.push_back(x.asNum());
        if(j.has("textra")) for(const auto& x : j.at("textra").arr) c.textra.push_back(x.asNum());
        c.blockSize = j.getInt("blockSize", 4); c.envBlock = j.getInt("envBlock", 0); c.oneGroupPerParent = int(j.getInt("oneGroupPerParent", 0));
        c.blockSize2 = j.getInt("blockSize2", 0); c.envBlock2 = j.getInt("envBlock2", 0); c.oneGroupPerParent2 = int(j.getInt("oneGroupPerParent2", 0));
        c.lstop = int(j.getInt("lstop", -100)); c.extraLevels = int(j.getInt("extraLevels", -2)); c.tsm = int(j.getInt("tsm", 0));
        c.executor = int(j.getInt("executor", 0)); c.threads = int(j.getInt("threads", 1)); c.threadsCtor = int(j.getInt("threadsCtor", 0));
        if(j.has("history")) for(const auto& x : j.at("history").arr) c.history.push_back(int(x.asInt()));
        if(j.has("sched")) for(const auto& x : j.at("sched").arr) c.sched.push_back(uint32_t(x.asInt()));
        if(j.has("cycles")){
            for(const auto& cyc : j.at("cycles").arr){
                std::vector<MoveOp> v;
                for(const auto& o : cyc.arr){
                    MoveOp m; m.set = int(o.getInt("set", 0)); m.index = o.getInt("index", 0);
                    for(size_t d = 0 ; d < o.at("pos").arr.size() && d < 4 ; ++d) m.pos[d] = o.at("pos").arr[d].asNum();
                    v.push_back(m);
                }
                c.cycles.push_back(v);
            }
        }
        c.salt = uint64_t(j.getInt("salt", 1)); c.variant = int(j.getInt("variant", 0));
        if(j.has("queries")) for(const auto& x : j.at("queries").arr) c.queries.push_back(long(x.asInt()));
        if(j.has("charges")) for(const auto& x : j.at("charges").arr) c.charges.push_back(x.asNum());
        if(j.has("tcharges")) for(const auto& x : j.at("tcharges").arr) c.tcharges.push_back(x.asNum());
        return c;
    }

    // short one-line description for evidence samples
    std::string brief() const {
        char buf[512];
        snprintf(buf, sizeof buf, "dim=%d H=%d N=%zu%s bs=%ld%s ogpp=%d box=[c=%.6g,w=%.6g] lstop=%d extra=%d exec=%d thr=%d hist=%zu sched=%zu cycles=%zu",
                 dim, height, pos.size(), tsm ? ("+" + std::to_string(tpos.size()) + "t").c_str() : "",
                 blockSize, envBlock ? ("(env " + std::to_string(envBlock) + ")").c_str() : "",
                 oneGroupPerParent, center[0], width[0], lstop, extraLevels, executor, threads,
                 history.size(), sched.size(), cycles.size());
        return buf;
    }
};

#endif
