#!/bin/bash
# like runall.sh but relative to the current directory (used with `vp run`, whose working directory is a snapshot of /verif)
T=${1:-quick}
for p in $(python3 -c "import json;print(' '.join(c['property_id'] for c in json.load(open('MANIFEST.json'))['checks']))"); do
  s=$(date +%s)
  out=$(./check $p --tier $T 2>&1); rc=$?
  echo "$p rc=$rc $(( $(date +%s) - s ))s | $(echo "$out" | tail -1)"
  echo "$out" | grep -E "VIOLATION|HARNESS-ERROR|NOTE" | head -8
  echo "$out" | grep -A1 "^VIOLATION" | grep "^  " | head -3
done
