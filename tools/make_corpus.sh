#!/bin/bash
# Grows and minimises the seed corpora of the libFuzzer targets (run by hand; the result under corpus/ is committed).
# usage: tools/make_corpus.sh <seconds per target>
cd /verif
SEC=${1:-120}
python3 - <<'PY'
import sys, os
sys.path.insert(0, '/verif'); sys.path.insert(0, '/verif/harness')
import importlib.machinery, importlib.util
loader = importlib.machinery.SourceFileLoader("check", "/verif/check")
spec = importlib.util.spec_from_loader("check", loader); check = importlib.util.module_from_spec(spec); loader.exec_module(check)
import plan
b = check.Builder()
bins = {}
for m in plan.PROPS.values():
    for j in m.jobs:
        if j.bin.fuzz: bins[j.bin.name] = j.bin
res = b.build_all(list(bins.values()))
open('/verif/build/fuzzbins.txt', 'w').write("\n".join("%s %s" % (n, r[1]) for n, r in res.items() if r[0] == "ok"))
PY
export ASAN_OPTIONS=detect_leaks=0 UBSAN_OPTIONS=halt_on_error=1
while read name exe; do
  ( W=/verif/build/corpuswork/$name; rm -rf $W; mkdir -p $W/a $W/b $W/min
    $exe -max_total_time=$SEC -max_len=256 -seed=11 $W/a > $W/a.log 2>&1 &
    $exe -max_total_time=$SEC -max_len=256 -seed=12 $W/b > $W/b.log 2>&1 &
    wait
    $exe -merge=1 $W/min $W/a $W/b > $W/merge.log 2>&1
    # keep the 250 smallest files of the minimised corpus
    rm -rf /verif/corpus/$name; mkdir -p /verif/corpus/$name
    ls -S -r $W/min | head -250 | while read f; do cp $W/min/$f /verif/corpus/$name/; done
    echo "$name: $(ls /verif/corpus/$name | wc -l) files, $(du -sk /verif/corpus/$name | cut -f1) kB" ) &
done < /verif/build/fuzzbins.txt
wait
