// Property binary: direct particle-particle routines FP2PR (C20). -DREALT=double|float
// A case = (salt, queries): queries[0..1] -> source/target counts (biased to SIMD-width neighbours),
// queries[2] -> cluster spread 1e-6..1e6, queries[3] -> offset of the cluster from the origin,
// queries[4] -> separation of the two clusters; positions/charges are a hash stream of the salt.
#ifndef REALT
#define REALT double
#endif

#include "kernels/P2P/FP2PR.hpp"
#include "../model/gf.hpp"
#include "common.hpp"

#include <array>
#include <vector>
#include <cmath>
#include <limits>
#include <sstream>

using Real = REALT;
constexpr int RealCode = std::is_same<Real, float>::value ? 1 : 0;

namespace {

struct Cloud {
    std::vector<Real> x, y, z, q;
    std::array<const Real*, 4> view() const { return {{x.data(), y.data(), z.data(), q.data()}}; }
    size_t size() const { return x.size(); }
};
struct Rhs {
    std::vector<Real> fx, fy, fz, pot;
    explicit Rhs(size_t n, uint64_t seed) : fx(n), fy(n), fz(n), pot(n){
        for(size_t i = 0 ; i < n ; ++i){
            fx[i] = Real(double(gf::splitmix(seed + 4 * i) % 2001) / 1000.0 - 1.0);
            fy[i] = Real(double(gf::splitmix(seed + 4 * i + 1) % 2001) / 1000.0 - 1.0);
            fz[i] = Real(double(gf::splitmix(seed + 4 * i + 2) % 2001) / 1000.0 - 1.0);
            pot[i] = Real(double(gf::splitmix(seed + 4 * i + 3) % 2001) / 1000.0 - 1.0);
        }
    }
    std::array<Real*, 4> view(){ return {{fx.data(), fy.data(), fz.data(), pot.data()}}; }
};

long countMap(long v){
    static const long t[14] = {0, 1, 2, 3, 4, 7, 8, 9, 15, 16, 17, 31, 32, 33};
    if(v < 0) v = -v;
    return (v % 20 < 14) ? t[v % 20] : (v / 20) % 501;
}

Cloud makeCloud(long n, uint64_t seed, double cx, double cy, double cz, double spread){
    Cloud c;
    for(long i = 0 ; i < n ; ++i){
        auto u = [&](int k){ return double(gf::splitmix(seed + uint64_t(i) * 8 + uint64_t(k)) % 2000001) / 1000000.0 - 1.0; };
        c.x.push_back(Real(cx + u(0) * spread)); c.y.push_back(Real(cy + u(1) * spread)); c.z.push_back(Real(cz + u(2) * spread));
        double q = 1e-3 + double(gf::splitmix(seed + uint64_t(i) * 8 + 3) % 999000) / 1e6;
        if(gf::splitmix(seed + uint64_t(i) * 8 + 4) & 1) q = -q;
        c.q.push_back(Real(q));
    }
    return c;
}

struct Ref { long double fx = 0, fy = 0, fz = 0, pot = 0, afx = 0, afy = 0, afz = 0, apot = 0; };   // value and sum of absolute terms

// contribution of source s on target t by the pairwise law, extended precision
void addPair(Ref& r, const Cloud& T, size_t t, const Cloud& S, size_t s){
    const long double dx = (long double)S.x[s] - (long double)T.x[t], dy = (long double)S.y[s] - (long double)T.y[t], dz = (long double)S.z[s] - (long double)T.z[t];
    const long double r2 = dx * dx + dy * dy + dz * dz, rr = std::sqrt(r2);
    const long double c = (long double)T.q[t] * (long double)S.q[s] / (r2 * rr);
    r.fx += c * dx; r.fy += c * dy; r.fz += c * dz; r.pot += (long double)S.q[s] / rr;
    r.afx += std::fabs(c * dx); r.afy += std::fabs(c * dy); r.afz += std::fabs(c * dz); r.apot += std::fabs((long double)S.q[s] / rr);
}

bool hasCoincident(const Cloud& A, const Cloud& B, bool same){
    for(size_t i = 0 ; i < A.size() ; ++i) for(size_t j = (same ? i + 1 : 0) ; j < B.size() ; ++j)
        if(A.x[i] == B.x[j] && A.y[i] == B.y[j] && A.z[i] == B.z[j]) return true;
    return false;
}

std::string cmp(const char* what, size_t i, const char* comp, Real got, Real pre, long double ref, long double absSum, size_t n){
    const long double eps = std::numeric_limits<Real>::epsilon();
    // each of the n contributions is computed with a few roundings (relative to its own size) and then added into an accumulator that
    // already holds the pre-filled value: every one of those n additions rounds relative to the accumulator, hence the (pre + absSum) term
    const long double tol = (32 + 4 * (long double)n) * eps * absSum + (8 + 2 * (long double)n) * eps * (std::fabs((long double)pre) + absSum) + std::numeric_limits<Real>::min() * 64;
    const long double delta = (long double)got - (long double)pre;
    if(!std::isfinite(double(got))){ std::ostringstream os; os << what << ": " << comp << " of particle " << i << " is not finite"; return os.str(); }
    if(std::fabs(delta - ref) > tol){
        std::ostringstream os; os.precision(17);
        os << what << ": " << comp << " of particle " << i << " changed by " << double(delta) << ", the pairwise law gives " << double(ref) << " (tolerance " << double(tol) << ", " << n << " sources)";
        return os.str();
    }
    return "";
}

std::string propP2P(const FmmCase& c){
    if(c.real != RealCode) return "SKIP wrong real type";
    hc::Stats& st = hc::stats();
    auto Q = [&](size_t i){ return i < c.queries.size() ? c.queries[i] : 0; };
    const long nA = countMap(Q(0)), nB = countMap(Q(1));
    const double spread = std::pow(10.0, double(std::labs(Q(2)) % 13) - 6.0);
    const double offMag = (std::labs(Q(3)) % 4 == 0) ? 0.0 : spread * std::pow(10.0, double(std::labs(Q(3)) % (RealCode ? 3 : 7)));
    const double sep = spread * std::pow(10.0, double(std::labs(Q(4)) % 5) - 1.0) * ((std::labs(Q(4)) % 7 == 0) ? 0.0 : 1.0);   // 0: overlapping clouds
    const Cloud A = makeCloud(nA, c.salt * 1000003u + 1, offMag, -offMag, offMag / 2, spread);
    const Cloud B = makeCloud(nB, c.salt * 1000003u + 77777, offMag + sep, -offMag, offMag / 2 + sep / 3, spread);
    if(hasCoincident(A, B, false) || hasCoincident(A, A, true) || hasCoincident(B, B, true)) return "SKIP coincident particles (the pairwise law is singular)";

    // ---- one-sided: GenericFullRemote(sources=A, targets=B)
    {
        Rhs rb(B.size(), c.salt + 5); const Rhs pre = rb;
        auto rv = rb.view();
        FP2PR::GenericFullRemote<Real>(A.view(), long(A.size()), B.view(), rv, long(B.size()));
        for(size_t t = 0 ; t < B.size() ; ++t){
            Ref r; for(size_t s = 0 ; s < A.size() ; ++s) addPair(r, B, t, A, s);
            std::string e;
            if(!(e = cmp("GenericFullRemote", t, "potential", rb.pot[t], pre.pot[t], r.pot, r.apot, A.size())).empty()) return e;
            if(!(e = cmp("GenericFullRemote", t, "force x", rb.fx[t], pre.fx[t], r.fx, r.afx, A.size())).empty()) return e;
            if(!(e = cmp("GenericFullRemote", t, "force y", rb.fy[t], pre.fy[t], r.fy, r.afy, A.size())).empty()) return e;
            if(!(e = cmp("GenericFullRemote", t, "force z", rb.fz[t], pre.fz[t], r.fz, r.afz, A.size())).empty()) return e;
        }
    }
    // ---- in-leaf: GenericInner(B) excludes the self term
    {
        Rhs rb(B.size(), c.salt + 9); const Rhs pre = rb;
        auto rv = rb.view();
        FP2PR::GenericInner<Real>(B.view(), rv, long(B.size()));
        for(size_t t = 0 ; t < B.size() ; ++t){
            Ref r; for(size_t s = 0 ; s < B.size() ; ++s) if(s != t) addPair(r, B, t, B, s);
            std::string e;
            if(B.size() == 1 && (rb.pot[0] != pre.pot[0] || rb.fx[0] != pre.fx[0] || rb.fy[0] != pre.fy[0] || rb.fz[0] != pre.fz[0])) return "GenericInner: a single particle interacts with itself";
            if(!(e = cmp("GenericInner", t, "potential", rb.pot[t], pre.pot[t], r.pot, r.apot, B.size())).empty()) return e;
            if(!(e = cmp("GenericInner", t, "force x", rb.fx[t], pre.fx[t], r.fx, r.afx, B.size())).empty()) return e;
            if(!(e = cmp("GenericInner", t, "force y", rb.fy[t], pre.fy[t], r.fy, r.afy, B.size())).empty()) return e;
            if(!(e = cmp("GenericInner", t, "force z", rb.fz[t], pre.fz[t], r.fz, r.afz, B.size())).empty()) return e;
        }
    }
    // ---- mutual: FullMutual(A, B) == Remote(A->B) + Remote(B->A); equal and opposite forces
    {
        Rhs ra(A.size(), c.salt + 13), rb(B.size(), c.salt + 17); const Rhs preA = ra, preB = rb;
        auto va = ra.view(); auto vb = rb.view();
        FP2PR::FullMutual<Real>(A.view(), va, long(A.size()), B.view(), vb, long(B.size()));
        long double sumF[3] = {0, 0, 0}, sumAbs = 0;
        for(size_t t = 0 ; t < B.size() ; ++t){
            Ref r; for(size_t s = 0 ; s < A.size() ; ++s) addPair(r, B, t, A, s);
            std::string e;
            if(!(e = cmp("FullMutual(target side)", t, "potential", rb.pot[t], preB.pot[t], r.pot, r.apot, A.size())).empty()) return e;
            if(!(e = cmp("FullMutual(target side)", t, "force x", rb.fx[t], preB.fx[t], r.fx, r.afx, A.size())).empty()) return e;
            if(!(e = cmp("FullMutual(target side)", t, "force y", rb.fy[t], preB.fy[t], r.fy, r.afy, A.size())).empty()) return e;
            if(!(e = cmp("FullMutual(target side)", t, "force z", rb.fz[t], preB.fz[t], r.fz, r.afz, A.size())).empty()) return e;
            sumF[0] += (long double)rb.fx[t] - (long double)preB.fx[t]; sumF[1] += (long double)rb.fy[t] - (long double)preB.fy[t]; sumF[2] += (long double)rb.fz[t] - (long double)preB.fz[t];
            sumAbs += r.afx + r.afy + r.afz + 3;
        }
        for(size_t t = 0 ; t < A.size() ; ++t){
            Ref r; for(size_t s = 0 ; s < B.size() ; ++s) addPair(r, A, t, B, s);
            std::string e;
            if(!(e = cmp("FullMutual(source side)", t, "potential", ra.pot[t], preA.pot[t], r.pot, r.apot, B.size())).empty()) return e;
            if(!(e = cmp("FullMutual(source side)", t, "force x", ra.fx[t], preA.fx[t], r.fx, r.afx, B.size())).empty()) return e;
            if(!(e = cmp("FullMutual(source side)", t, "force y", ra.fy[t], preA.fy[t], r.fy, r.afy, B.size())).empty()) return e;
            if(!(e = cmp("FullMutual(source side)", t, "force z", ra.fz[t], preA.fz[t], r.fz, r.afz, B.size())).empty()) return e;
            sumF[0] += (long double)ra.fx[t] - (long double)preA.fx[t]; sumF[1] += (long double)ra.fy[t] - (long double)preA.fy[t]; sumF[2] += (long double)ra.fz[t] - (long double)preA.fz[t];
            sumAbs += r.afx + r.afy + r.afz + 3;
        }
        const long double eps = std::numeric_limits<Real>::epsilon();
        for(int k = 0 ; k < 3 ; ++k) if(std::fabs(sumF[k]) > (64 + 8 * (long double)(A.size() + B.size())) * eps * sumAbs){
            std::ostringstream os; os << "FullMutual: forces are not equal and opposite, total force component " << k << " = " << double(sumF[k]); return os.str(); }
    }
    st.cls("nA=" + std::string(nA == 0 ? "0" : (nA == 1 ? "1" : (nA % 4 ? "not-multiple-of-4" : "multiple-of-4"))));
    st.cls("spread=1e" + std::to_string(long(std::labs(Q(2)) % 13) - 6));
    if(sep == 0) st.cls("overlapping-clouds");
    if(nA >= 2 && nB >= 2 && (nA % 4) && (nB % 4)) st.noteNontrivial(hc::hashCase(c), c);
    return "";
}

} // namespace

int main(int argc, char** argv){
    hc::Args a = hc::parseArgs(argc, argv);
    if(a.prop.empty()){ std::cerr << "usage: --prop C20 ...\n"; return 2; }
    pbt::GenCfg g; g.dim = 3; g.real = RealCode; g.queries = true; g.maxN = 1; g.maxH = 1; g.genericBoxes = false; g.autoBlock = false;
    return hc::runMain(a, g, [&](const FmmCase& c){
        FmmCase w = c; w.pos.clear();
        while(w.queries.size() < 5) w.queries.push_back(long(gf::splitmix(c.salt + w.queries.size()) % 100000));
        return propP2P(w);
    });
}
