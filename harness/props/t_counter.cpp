// Property binary: TbfInteractionCounter (C18). -DRT=0 sequential, -DRT=1 OpenMP under mock-runtime schedules.
#ifndef DIM
#define DIM 3
#endif
#ifndef RT
#define RT 0
#endif

#include "fmmharness.hpp"
#include "kernels/counterkernels/tbfinteractioncounter.hpp"
#include "../runtimes/sched.hpp"
#if RT == 1
#include "algorithms/openmp/tbfopenmpalgorithm.hpp"
#endif

using Real = double;
constexpr int Dim = DIM;
constexpr long NbData = Dim;
using Config = TbfSpacialConfiguration<Real, Dim>;
using SI = TbfMortonSpaceIndex<Dim, Config, false>;
using Tree = TbfTree<Real, Real, NbData, uint64_t, gf::NEVAL + 1, gf::Val, gf::Val, SI>;
using Plain = probe::GfKernel<Real, SI>;
using Counting = TbfInteractionCounter<Plain>;
#if RT == 1
using Algo = TbfOpenmpAlgorithm<Real, Counting, SI>;
#else
using Algo = TbfAlgorithm<Real, Counting, SI>;
#endif
using PlainAlgo = TbfAlgorithm<Real, Plain, SI>;

namespace {
using rm::Coord;

std::string propCounter(const FmmCase& c){
    if(c.dim != Dim) return "SKIP wrong dimension";
    hc::Stats& st = hc::stats();
    rm::ModelTree mt; mt.build<Real>(c, c.pos);
    if(!mt.allInBox || !mt.allSound) return "SKIP generator soundness";
    const int H = c.height;
    const int lstop = (c.lstop == -100) ? 2 : std::max(0, c.lstop);
    const Config config = fh::makeConfig<Real, Dim>(c);
    auto in = fh::makeInput<Real, Real, NbData>(c, c.pos, c.extra, Dim, 0);
    auto build = [&](){
        fh::ScopedBlockEnv env(c.blockSize == -1 ? c.envBlock : 0);
        if(c.blockSize == -1) return std::unique_ptr<Tree>(new Tree(config, in.data));
        return std::unique_ptr<Tree>(new Tree(config, in.data, c.blockSize, c.oneGroupPerParent != 0));
    };
    const int nbExec = 1 + int(c.salt % 3);
    // each "execution" is the history of the case: one full call, or a staged sequence of calls whose flags partition the operators
    std::vector<int> calls = c.history; if(calls.empty()) calls.push_back(63);

    // reference: unwrapped kernel, sequential
    auto treeA = build();
    probe::Ctx ctxA(c.salt); ctxA.dim = Dim; ctxA.height = H; ctxA.base = H - 1; ctxA.logging = false; ctxA.checking = false;
    {
        std::unique_ptr<PlainAlgo> a; if(c.lstop == -100) a.reset(new PlainAlgo(config, Plain(&ctxA))); else a.reset(new PlainAlgo(config, Plain(&ctxA), long(c.lstop)));
        for(int e = 0 ; e < nbExec ; ++e) for(int fl : calls) a->execute(*treeA, fl);
    }
    // wrapped kernel
    auto treeB = build();
    probe::Ctx ctxB(c.salt); ctxB.dim = Dim; ctxB.height = H; ctxB.base = H - 1; ctxB.logging = false; ctxB.checking = false;
    msched::global().reset(c.threads, c.sched);
    typename Counting::ReduceType merged;
    long nbKernels = 0, nbKernelsUsed = 0;
    std::string counterErr; long modelM2L = 0, modelP2P = 0;
    bool changedWorkers = false;
    {
        std::unique_ptr<Algo> a; if(c.lstop == -100) a.reset(new Algo(config, Counting(&ctxB))); else a.reset(new Algo(config, Counting(&ctxB), long(c.lstop)));
        // model counts per operator and execution
        long eP2M = 0, eM2M = 0, eM2L = 0, eP2P = 0, eInner = 0;
        if(H > lstop) eP2M = long(mt.leaves.size());
        for(int l = std::max(lstop, 0) ; l <= H - 2 ; ++l) eM2M += long(mt.cells[size_t(l + 1)].size());
        for(int l = std::max(lstop, 0) ; l <= H - 1 ; ++l) for(const Coord& T : mt.cells[size_t(l)]) for(const rm::Pair& p : rm::transferList(Dim, l, T, false)) if(mt.has(l, p.src)) eM2L += 1;
        for(const auto& kv : mt.leaves){
            const long n = long(kv.second.size());
            eInner += n * (n - 1);
            for(const rm::Pair& p : rm::neighborList(Dim, H - 1, kv.first, false)){ auto it = mt.leaves.find(p.src); if(it != mt.leaves.end() && kv.first < p.src) eP2P += n * long(it->second.size()); }
        }
        modelM2L = eM2L; modelP2P = eP2P;
        // "merge order of per-worker counters arbitrary": a generated reduction tree - any two partial results are merged, in
        // either operand order, until one remains (the documented left fold from a zero accumulator is one such tree)
        uint64_t r = c.salt * 0x9E3779B97F4A7C15ull + 12345;
        auto mergeNow = [&](){
            std::vector<typename Counting::ReduceType> parts;
            a->applyToAllKernels([&](const auto& k){ parts.push_back(k.getReduceData()); });
            nbKernels = long(parts.size());
            nbKernelsUsed = 0;
            for(const auto& p : parts) if(p.P2M + p.M2M + p.M2L + p.L2L + p.L2P + p.P2P + p.P2PInner > 0) nbKernelsUsed += 1;
            parts.push_back(typename Counting::ReduceType());
            while(parts.size() > 1){
                r = gf::splitmix(r);
                const size_t i = size_t(r % parts.size());
                size_t j = size_t((r >> 20) % (parts.size() - 1)); if(j >= i) j += 1;
                const auto m = ((r >> 40) & 1) ? Counting::ReduceType::Reduce(parts[i], parts[j]) : Counting::ReduceType::Reduce(parts[j], parts[i]);
                parts[std::min(i, j)] = m;
                parts.erase(parts.begin() + long(std::max(i, j)));
            }
            return parts[0];
        };
        // number of times each operator flag has been requested so far (bit 0 P2P ... bit 5 L2P)
        long times[6] = {0, 0, 0, 0, 0, 0};
        for(int e = 0 ; e < nbExec && counterErr.empty() ; ++e){
            for(size_t ic = 0 ; ic < calls.size() && counterErr.empty() ; ++ic){
                std::vector<uint32_t> s2 = c.sched; if(!s2.empty()) s2.push_back(uint32_t(e) * 40503u + uint32_t(ic) * 977u);
                // worker count of this execution: the first execution uses c.threads; when c.threadsCtor is set the later executions run
                // with that many workers, more or fewer (raising the count used to clone kernel 0 together with its accumulated
                // counters: F-COUNTER-GROWTH, repaired; lowering it must not lose the counters of the idle copies)
                int workers = c.threads;
                if(e >= 1 && c.threadsCtor > 0) workers = c.threadsCtor;
                if(workers != c.threads) changedWorkers = true;
                msched::global().reset(workers, s2);
                a->execute(*treeB, calls[ic]);
                for(int b = 0 ; b < 6 ; ++b) if(calls[ic] & (1 << b)) times[b] += 1;
                // the counters are read between the calls: each operator counter = (times its flag was requested) x (model count)
                merged = mergeNow();
                auto cmp = [&](const char* name, long got, long exp, long n){
                    if(counterErr.empty() && got != exp * n){ std::ostringstream os; os << "counter " << name << " reports " << got << " after its operator was requested " << n << " time(s) (execution " << e + 1 << ", call " << ic + 1 << " of " << calls.size() << ", flags " << calls[ic] << "), the tree implies " << exp << " per request"; counterErr = os.str(); }
                };
                cmp("P2M", merged.P2M, eP2M, times[1]); cmp("M2M", merged.M2M, eM2M, times[2]); cmp("M2L", merged.M2L, eM2L, times[3]);
                cmp("L2L", merged.L2L, eM2M, times[4]); cmp("L2P", merged.L2P, eP2M, times[5]);
                cmp("P2P", merged.P2P, eP2P, times[0]); cmp("P2PInner", merged.P2PInner, eInner, times[0]);
            }
        }
    }
    if(!counterErr.empty()) return counterErr;    // (the executions were stopped at the first wrong counter: the trees are not comparable)
    // results unchanged by the wrapper
    std::string err;
    {
        std::map<long, gf::Val> ra;
        treeA->applyToAllLeaves([&](auto&& h, const long int* idx, auto&&, auto&& rhs){ for(long i = 0 ; i < h.nbParticles ; ++i){ gf::Val v; for(int k = 0 ; k < gf::NEVAL ; ++k) v.v[k] = rhs[size_t(k)][i]; v.cnt = rhs[gf::NEVAL][i]; ra[idx[i]] = v; } });
        treeB->applyToAllLeaves([&](auto&& h, const long int* idx, auto&&, auto&& rhs){ for(long i = 0 ; i < h.nbParticles ; ++i){ gf::Val v; for(int k = 0 ; k < gf::NEVAL ; ++k) v.v[k] = rhs[size_t(k)][i]; v.cnt = rhs[gf::NEVAL][i]; if(err.empty() && ra[idx[i]] != v) err = "wrapping the kernel in the counter changed the result of particle " + std::to_string(idx[i]); } });
        if(err.empty() && fh::valueSnapshot(*treeA, true, true, false) != fh::valueSnapshot(*treeB, true, true, false)) err = "wrapping the kernel in the counter changed cell expansions";
    }
    if(!err.empty()) return err;
    if(!counterErr.empty()) return counterErr;
    const long eM2L = modelM2L, eP2P = modelP2P;
    st.cls("executes=" + std::to_string(nbExec));
    if(calls.size() > 1) st.cls("staged-history (counters read between the calls)");
    if(changedWorkers) st.cls("worker-count-changed-between-executions");
    st.cls("kernel-copies", nbKernels);
    if(nbKernelsUsed >= 2) st.cls("counts-spread-over>=2-kernel-copies");
    const bool nontrivial = (RT == 1) ? (nbKernelsUsed >= 2) : (eM2L > 0 && eP2P > 0);
    if(nontrivial) st.noteNontrivial(hc::hashCase(c), c);
    return "";
}

} // namespace

int main(int argc, char** argv){
    hc::Args a = hc::parseArgs(argc, argv);
    if(a.prop.empty()){ std::cerr << "usage: --prop C18 ...\n"; return 2; }
    pbt::GenCfg g; g.dim = Dim; g.lstops = true; g.histories = true; g.historyOneIn = 2;
    static const int hmax[5] = {0, 8, 6, 5, 4};
    g.maxH = int(a.getInt("maxh", hmax[Dim])); g.maxN = int(a.getInt("maxn", 150));
#if RT == 1
    g.schedules = true; g.executors = 2; g.varyThreads = true;    // threadsCtor = worker count of the executions after the first (see propCounter)
#endif
    return hc::runMain(a, g, [&](const FmmCase& c){ return propCounter(c); });
}
