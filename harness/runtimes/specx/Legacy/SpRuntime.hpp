// API-compatible mock of the part of Specx used by tbfmm (src/algorithms/smspecx): tasks with
// SpRead / SpWrite / SpCommutativeWrite accesses and a priority, one task graph, a CPU worker team.
// Semantics modelled: sequential consistency per data handle (address): a reader waits for the
// previous writers, a writer for previous readers and writers, consecutive commutative writes to one
// address are unordered among themselves but mutually exclusive. The schedule is owned by the
// harness (sched.hpp).
#ifndef VERIF_MOCK_SPRUNTIME_HPP
#define VERIF_MOCK_SPRUNTIME_HPP

#include "../../sched.hpp"

#include <tuple>
#include <memory>
#include <utility>
#include <type_traits>

enum class SpSpeculativeModel { SP_NO_SPEC, SP_MODEL_1, SP_MODEL_2, SP_MODEL_3 };

struct SpPriority { int value; explicit SpPriority(int v) : value(v){} };

template <class T> struct SpReadAccess { const T* ptr; };
template <class T> struct SpWriteAccess { T* ptr; };
template <class T> struct SpCommutativeWriteAccess { T* ptr; };

template <class T> SpReadAccess<T> SpRead(const T& x){ return SpReadAccess<T>{&x}; }
template <class T> SpWriteAccess<T> SpWrite(T& x){ return SpWriteAccess<T>{&x}; }
template <class T> SpCommutativeWriteAccess<T> SpCommutativeWrite(T& x){ return SpCommutativeWriteAccess<T>{&x}; }

namespace SpUtils {
inline long int GetThreadId(){ return msched::global().currentTask >= 0 ? msched::global().currentWorker + 1 : 0; }   // workers are numbered from 1
inline int DefaultNumThreads(){ return msched::global().nbThreads; }
}

struct SpWorkerTeam { int nb; };
struct SpWorkerTeamBuilder {
    static SpWorkerTeam TeamOfCpuWorkers(){ return SpWorkerTeam{msched::global().nbThreads}; }
    static SpWorkerTeam TeamOfCpuWorkers(int n){ return SpWorkerTeam{n}; }
};

class SpComputeEngine {
    int nb;
public:
    explicit SpComputeEngine(SpWorkerTeam t) : nb(t.nb){}
    int getNbCpuWorkers() const { return nb; }
    void stopIfNotAlreadyStopped(){}
};

namespace spmock {
template <class T> msched::Dep depOf(const SpReadAccess<T>& a){ return msched::Dep{a.ptr, msched::DepIn}; }
template <class T> msched::Dep depOf(const SpWriteAccess<T>& a){ return msched::Dep{a.ptr, msched::DepOut}; }
template <class T> msched::Dep depOf(const SpCommutativeWriteAccess<T>& a){ return msched::Dep{a.ptr, msched::DepCommute}; }
template <class T> const T& refOf(const SpReadAccess<T>& a){ return *a.ptr; }
template <class T> T& refOf(const SpWriteAccess<T>& a){ return *a.ptr; }
template <class T> T& refOf(const SpCommutativeWriteAccess<T>& a){ return *a.ptr; }
}

template <SpSpeculativeModel Model>
class SpTaskGraph {
    template <class Tuple, std::size_t... I>
    void submit(int prio, Tuple&& tup, std::index_sequence<I...>){
        constexpr std::size_t N = std::tuple_size<typename std::decay<Tuple>::type>::value;
        std::vector<msched::Dep> deps{ spmock::depOf(std::get<I>(tup))... };
        using Fn = typename std::decay<typename std::tuple_element<N - 1, typename std::decay<Tuple>::type>::type>::type;
        // the callable is moved into the task exactly once, like the real runtime does
        auto fn = std::make_shared<Fn>(std::move(std::get<N - 1>(tup)));
        auto accesses = std::make_tuple(std::get<I>(tup)...);
        msched::global().submit([fn, accesses](){ (*fn)(spmock::refOf(std::get<I>(accesses))...); }, deps, prio);
    }
public:
    void computeOn(SpComputeEngine&){}
    template <class... Args>
    void task(SpPriority p, Args&&... args){
        auto tup = std::forward_as_tuple(std::forward<Args>(args)...);
        submit(p.value, tup, std::make_index_sequence<sizeof...(Args) - 1>());
    }
    template <class First, class... Args, typename = typename std::enable_if<!std::is_same<typename std::decay<First>::type, SpPriority>::value>::type>
    void task(First&& first, Args&&... args){
        auto tup = std::forward_as_tuple(std::forward<First>(first), std::forward<Args>(args)...);
        submit(0, tup, std::make_index_sequence<sizeof...(Args)>());
    }
    void waitAllTasks(){ msched::global().waitAll(); }
};

using SpRuntimeMock = SpTaskGraph<SpSpeculativeModel::SP_NO_SPEC>;

#endif
