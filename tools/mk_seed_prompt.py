#!/usr/bin/env python3
"""prints the prompt given to a fresh sub-agent for one property (only the property text + its scratch worktree)"""
import json, sys
pid, wt = sys.argv[1], sys.argv[2]
variant = sys.argv[3] if len(sys.argv) > 3 else ""
rec = None
for l in open('/verif/properties.jsonl'):
    p = json.loads(l)
    if p['id'] == pid:
        rec = p
text = json.dumps({k: rec[k] for k in ('id', 'title', 'statement', 'quantifier', 'why_tests_cant', 'anchors')}, indent=1)
print(f"""You are working in a scratch git worktree of the C++17 header-only Fast Multipole Method library berenger-eu/tbfmm located at {wt}
(a plain checkout: sources in {wt}/src, tests in {wt}/unit-tests, documentation in {wt}/README.md). Work ONLY inside {wt}. Do not read or
modify /repo or /verif, and do not commit anything.

Here is one semantic property that the library is supposed to satisfy:

{text}

Your task: create a *seeded defect* for this property, i.e. a small, realistic change to the library sources under {wt}/src that BREAKS this
property while
 (a) everything still compiles,
 (b) the existing unit-test suite still passes completely. Build and run it with:
       cmake -G Ninja -B {wt}/_build -DBUILD_TESTS=ON -DCMAKE_BUILD_TYPE=RelWithDebInfo {wt} && cmake --build {wt}/_build -j4 && ctest --test-dir {wt}/_build -j4 --timeout 900
     (26 tests, a few minutes; build with at most 4 parallel jobs, other work shares the machine), and
 (c) the breakage needs something SPECIFIC to manifest: a particular task schedule/interleaving, a crash or fault at a particular point, a multi-step
     sequence of operations, an unusual input (a particular tree shape, block size, particle placement, dimension, data type, number of levels ...),
     or two cooperating sites that each look fine alone. It must NOT be something that ordinary use (the examples, the unit tests, a uniform random
     particle cloud with default settings) exposes at once.{(' ' + variant) if variant else ''}

Keep the change realistic: the kind of slip a maintainer could make in a refactoring (off-by-one, wrong variable, dropped clause, swapped arguments,
stale cache, wrong bound, missing copy), not an obviously malicious edit, and keep it small (ideally 1-10 changed lines).

Also write a demonstration: a small standalone C++17 program {wt}/demo/demo.cpp (compile with: g++ -std=c++17 -O1 -I{wt}/src [-fopenmp] demo.cpp) that
exits non-zero with a clear message WITH your change and exits 0 WITHOUT it. Verify both yourself (use `git stash` / `git stash pop` or `git diff > patch; git checkout -- src`).

Deliver, all under {wt}/demo/ :
  1. patch.diff  = output of `git -C {wt} diff -- src`  (only files under src/)
  2. demo.cpp and README.md (exact build + run commands, expected output with and without the change)
  3. meta.txt : which clause of the property it breaks, what it needs in order to manifest, and exactly what you ran (test suite result with the change, demo result with and without).
Leave the change applied in the worktree when you finish. Your final answer should be the content of meta.txt.""")
