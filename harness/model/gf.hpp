// Arithmetic in the prime field GF(2^61-1) used by the exactly-additive "generating function"
// probe kernel and by the reference model.  No tbfmm header is included here.
//
// Idea: a particle j with weight w_j sitting in leaf S_j (integer grid coordinates, leaf units)
// is represented, relative to an origin O, by the monomial  w_j * prod_d a_d^(S_j[d]-O[d]).
// Sums of such monomials are exactly additive (order independent), and translating the origin by
// a vector t multiplies the whole sum by prod_d a_d^(-t[d]) -- a homomorphism, so every FMM
// operator (P2M, M2M, M2L, L2L, L2P, P2P) can be executed exactly and the value accumulated by a
// particle tells, up to a 2^-61 collision probability per evaluation point, *which* sources at
// *which* relative grid offsets contributed, with multiplicity.
#ifndef VERIF_GF_HPP
#define VERIF_GF_HPP

#include <cstdint>
#include <array>

namespace gf {

constexpr uint64_t P = (uint64_t(1) << 61) - 1;
constexpr int NEVAL = 2;   // independent evaluation points
constexpr int MAXDIM = 4;

inline uint64_t red(unsigned __int128 x){
    uint64_t lo = uint64_t(x & P);
    uint64_t hi = uint64_t(x >> 61);
    uint64_t r = lo + hi;
    r = (r & P) + (r >> 61);
    if(r >= P) r -= P;
    return r;
}
inline uint64_t add(uint64_t a, uint64_t b){ uint64_t r = a + b; if(r >= P) r -= P; return r; }
inline uint64_t sub(uint64_t a, uint64_t b){ return a >= b ? a - b : a + P - b; }
inline uint64_t mul(uint64_t a, uint64_t b){ return red((unsigned __int128)a * b); }
inline uint64_t powu(uint64_t a, uint64_t e){
    uint64_t r = 1;
    while(e){ if(e & 1) r = mul(r, a); a = mul(a, a); e >>= 1; }
    return r;
}
inline uint64_t inv(uint64_t a){ return powu(a, P - 2); }

inline uint64_t splitmix(uint64_t x){
    x += 0x9E3779B97F4A7C15ull;
    x = (x ^ (x >> 30)) * 0xBF58476D1CE4E5B9ull;
    x = (x ^ (x >> 27)) * 0x94D049BB133111EBull;
    return x ^ (x >> 31);
}

// Evaluation points and weights, all derived from one salt.
struct Params {
    uint64_t a[NEVAL][MAXDIM];
    uint64_t ainv[NEVAL][MAXDIM];
    uint64_t salt;
    // flat = true: every evaluation point is 1, i.e. geometry is ignored and values are plain sums of weights
    // (used for orderings whose position-code conventions are library defined, see F-HILBERT)
    explicit Params(uint64_t inSalt = 0x5EEDull, bool flat = false) : salt(inSalt){
        for(int k = 0 ; k < NEVAL ; ++k){
            for(int d = 0 ; d < MAXDIM ; ++d){
                uint64_t v = splitmix(inSalt * 1315423911ull + uint64_t(k) * 131 + uint64_t(d) * 7 + 17) % (P - 3) + 2;
                if(flat) v = 1;
                a[k][d] = v;
                ainv[k][d] = inv(v);
            }
        }
    }
    // weight of a particle, from its insertion index (tag distinguishes source/target sets)
    uint64_t weight(int k, long index, int tag = 0) const {
        return splitmix(salt ^ (uint64_t(index) * 0x100000001B3ull) ^ (uint64_t(tag) << 56) ^ (uint64_t(k) << 48)) % (P - 1) + 1;
    }
    uint64_t powd(int k, int d, long e) const {
        return e >= 0 ? powu(a[k][d], uint64_t(e)) : powu(ainv[k][d], uint64_t(-e));
    }
    // prod_d a_d^(v[d])
    template <class Vec>
    uint64_t shift(int k, const Vec& v, int dim) const {
        uint64_t r = 1;
        for(int d = 0 ; d < dim ; ++d) r = mul(r, powd(k, d, long(v[d])));
        return r;
    }
};

// Value carried by cells and accumulated by particles.
struct Val {
    uint64_t v[NEVAL];
    uint64_t cnt;   // number of source particles folded in (wrapping)
};
inline bool operator==(const Val& a, const Val& b){
    for(int k = 0 ; k < NEVAL ; ++k) if(a.v[k] != b.v[k]) return false;
    return a.cnt == b.cnt;
}
inline bool operator!=(const Val& a, const Val& b){ return !(a == b); }
inline Val zero(){ Val z; for(int k = 0 ; k < NEVAL ; ++k) z.v[k] = 0; z.cnt = 0; return z; }
inline bool isZero(const Val& a){ return a == zero(); }
// acc += src * shiftfactor
inline void addShifted(Val& acc, const Val& src, const uint64_t f[NEVAL]){
    for(int k = 0 ; k < NEVAL ; ++k) acc.v[k] = add(acc.v[k], mul(src.v[k], f[k]));
    acc.cnt += src.cnt;
}
inline void addPlain(Val& acc, const Val& src){
    for(int k = 0 ; k < NEVAL ; ++k) acc.v[k] = add(acc.v[k], src.v[k]);
    acc.cnt += src.cnt;
}

} // namespace gf

#endif
