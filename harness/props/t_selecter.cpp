// Property binary (C19): the build configuration that enables several task runtimes at once: the algorithm selector
// header with TBF_USE_OPENMP, TBF_USE_SPECX and TBF_USE_STARPU all defined (mock runtimes), naming every executor class.
#define TBF_USE_OPENMP
#define TBF_USE_SPECX
#define TBF_USE_STARPU
#ifndef DIM
#define DIM 3
#endif
#include "fmmharness.hpp"
#include "core/tbftreetsm.hpp"
#include "algorithms/tbfalgorithmselecter.hpp"
#include "../runtimes/sched.hpp"

using Real = double;
constexpr int Dim = DIM;
using Config = TbfSpacialConfiguration<Real, Dim>;
using SI = TbfMortonSpaceIndex<Dim, Config, false>;
using Tree = TbfTree<Real, Real, Dim, uint64_t, gf::NEVAL + 1, gf::Val, gf::Val, SI>;
using Kernel = probe::GfKernel<Real, SI>;

namespace {
using rm::Coord;

template <class AlgoClass>
std::string runWith(const char* name, const FmmCase& c, const rm::ModelTree& mt, const Config& config, const fh::ParticleInput<Real, Dim>& in){
    std::unique_ptr<Tree> tree(new Tree(config, in.data, c.blockSize == -1 ? 3 : c.blockSize, c.oneGroupPerParent != 0));
    probe::Ctx ctx(c.salt);
    ctx.dim = Dim; ctx.height = c.height; ctx.base = c.height - 1;
    ctx.leafOf[0] = &mt.leafOf; ctx.rows[0] = &in.rows;
    fh::registerCells<Dim>(*tree, ctx);
    msched::global().reset(c.threads, c.sched);
    AlgoClass algo(config, Kernel(&ctx));
    algo.execute(*tree);
    rm::Expect ex(ctx.P, mt, false, 0);
    long nb = 0;
    std::map<Coord, gf::Val> perLeaf;
    std::string e = fh::checkParticleValues<Dim>(*tree, mt, [&](const Coord& T, long id){
        auto it = perLeaf.find(T);
        if(it == perLeaf.end()){ gf::Val v = gf::zero(); if(c.height > 2) gf::addPlain(v, ex.farAtLeaf(T, 2)); gf::addPlain(v, ex.nearField(T, -1)); it = perLeaf.emplace(T, v).first; }
        gf::Val v = it->second; for(int k = 0 ; k < gf::NEVAL ; ++k) v.v[k] = gf::sub(v.v[k], ctx.P.weight(k, id, 0)); v.cnt -= 1; return v;
    }, nb);
    if(!e.empty()) return std::string(name) + ": " + e;
    return "";
}

std::string propSelecter(const FmmCase& c){
    if(c.dim != Dim) return "SKIP wrong dimension";
    rm::ModelTree mt; mt.build<Real>(c, c.pos);
    if(!mt.allInBox || !mt.allSound) return "SKIP generator soundness";
    const Config config = fh::makeConfig<Real, Dim>(c);
    auto in = fh::makeInput<Real, Real, Dim>(c, c.pos, c.extra, Dim, 0);
    std::string e;
    if(!(e = runWith<TbfAlgorithmSelecter::type<Real, Kernel, SI>>("selected", c, mt, config, in)).empty()) return e;
    if(!(e = runWith<TbfAlgorithm<Real, Kernel, SI>>("sequential", c, mt, config, in)).empty()) return e;
    if(!(e = runWith<TbfOpenmpAlgorithm<Real, Kernel, SI>>("openmp", c, mt, config, in)).empty()) return e;
    if(!(e = runWith<TbfSmSpecxAlgorithm<Real, Kernel, SI>>("specx", c, mt, config, in)).empty()) return e;
    if(!(e = runWith<TbfSmStarpuAlgorithm<Real, Kernel, SI>>("starpu", c, mt, config, in)).empty()) return e;
    // the target/source selector and classes must be nameable too
    static_assert(sizeof(TbfAlgorithmSelecterTsm::type<Real, Kernel, SI>) > 0, "tsm selector");
    static_assert(sizeof(TbfSmSpecxAlgorithmTsm<Real, Kernel, SI>) > 0 && sizeof(TbfSmStarpuAlgorithmTsm<Real, Kernel, SI>) > 0 && sizeof(TbfOpenmpAlgorithmTsm<Real, Kernel, SI>) > 0, "tsm classes");
    if(mt.leaves.size() >= 2) hc::stats().noteNontrivial(hc::hashCase(c), c);
    return "";
}
}
int main(int argc, char** argv){
    hc::Args a = hc::parseArgs(argc, argv);
    if(a.prop.empty()){ std::cerr << "usage: --prop C19 ...\n"; return 2; }
    pbt::GenCfg g; g.dim = Dim; g.maxH = 4; g.maxN = 60; g.schedules = true; g.executors = 2; g.autoBlock = false;
    return hc::runMain(a, g, [&](const FmmCase& c){ return propSelecter(c); });
}
