// Property binary: numerical kernels against the direct pairwise sum (C04 rotation kernel, C05 uniform kernel).
// -DKERNEL=1 rotation (order P = ORDERV) | 2 uniform Lagrange/FFT (interpolation order ORDERV)
// -DREALT=double|float  -DRT=0 sequential | 1 OpenMP under mock-runtime schedules
// -DPERIODIC=0|1 (periodic ordering + top tree, explicit image sum)  -DTSMN=0|1 (target/source trees)
#ifndef KERNEL
#define KERNEL 1
#endif
#ifndef ORDERV
#define ORDERV 4
#endif
#ifndef REALT
#define REALT double
#endif
#ifndef RT
#define RT 0
#endif
#ifndef PERIODIC
#define PERIODIC 0
#endif
#ifndef TSMN
#define TSMN 0
#endif

#include "tbfglobal.hpp"
#include "utils/tbfutils.hpp"
#include "spacial/tbfmortonspaceindex.hpp"
#include "spacial/tbfspacialconfiguration.hpp"
#include "core/tbftree.hpp"
#include "core/tbftreetsm.hpp"
#include "algorithms/sequential/tbfalgorithm.hpp"
#include "algorithms/sequential/tbfalgorithmtsm.hpp"
#include "algorithms/periodic/tbfalgorithmperiodictoptree.hpp"
#include "algorithms/periodic/tbfalgorithmperiodictoptreetsm.hpp"
#if KERNEL == 1
#include "kernels/rotationkernel/FRotationKernel.hpp"
#else
#include "kernels/unifkernel/FUnifKernel.hpp"
#endif
#if RT == 1
#include "algorithms/openmp/tbfopenmpalgorithm.hpp"
#include "algorithms/openmp/tbfopenmpalgorithmtsm.hpp"
#endif

#include "../model/refmodel.hpp"
#include "../runtimes/sched.hpp"
#include "common.hpp"
#include "bounds.hpp"

#include <complex>
#include <memory>
#include <sstream>
#include <cmath>

using Real = REALT;
constexpr int Dim = 3;
constexpr int RealCode = std::is_same<Real, float>::value ? 1 : 0;
constexpr bool Periodic = PERIODIC != 0;
using Config = TbfSpacialConfiguration<Real, Dim>;
using SI = TbfMortonSpaceIndex<Dim, Config, Periodic>;
#if KERNEL == 1
static const char* KernelName = "rotation";
#else
static const char* KernelName = "uniform";
#endif

struct Result { std::vector<std::array<Real, 4>> v; };   // per particle (target): fx fy fz potential

// everything that depends on the expansion order
template <int ORD>
struct Num {
#if KERNEL == 1
    using MultipoleClass = std::array<std::complex<Real>, ((ORD + 2) * (ORD + 1)) / 2>;
    using LocalClass = std::array<std::complex<Real>, ((ORD + 2) * (ORD + 1)) / 2>;
    using KernelClass = FRotationKernel<Real, ORD, SI>;
#else
    struct MultipoleClass { Real multipole_exp[TensorTraits<ORD>::nnodes]; std::complex<Real> transformed_multipole_exp[(2 * ORD - 1) * (2 * ORD - 1) * (2 * ORD - 1)]; };
    struct LocalClass { Real local_exp[TensorTraits<ORD>::nnodes]; std::complex<Real> transformed_local_exp[(2 * ORD - 1) * (2 * ORD - 1) * (2 * ORD - 1)]; };
    using MatrixKernel = FInterpMatrixKernelR<Real>;
    using KernelClass = FUnifKernel<Real, MatrixKernel, ORD, 3, SI>;
#endif
#if TSMN
    using Tree = TbfTreeTsm<Real, Real, 4, Real, 4, MultipoleClass, LocalClass, SI>;
    using TopAlgo = TbfAlgorithmPeriodicTopTreeTsm<Real, KernelClass, MultipoleClass, LocalClass, SI>;
#if RT == 1
    using Algo = TbfOpenmpAlgorithmTsm<Real, KernelClass, SI>;
#else
    using Algo = TbfAlgorithmTsm<Real, KernelClass, SI>;
#endif
#else
    using Tree = TbfTree<Real, Real, 4, Real, 4, MultipoleClass, LocalClass, SI>;
    using TopAlgo = TbfAlgorithmPeriodicTopTree<Real, KernelClass, MultipoleClass, LocalClass, SI>;
#if RT == 1
    using Algo = TbfOpenmpAlgorithm<Real, KernelClass, SI>;
#else
    using Algo = TbfAlgorithm<Real, KernelClass, SI>;
#endif
#endif
    static KernelClass* makeKernel(const Config& config){
#if KERNEL == 1
        return new KernelClass(config);
#else
        static MatrixKernel mk;
        return new KernelClass(config, &mk);
#endif
    }
    static std::string runFmm(const FmmCase& c, const Config& config, const std::vector<Real>& qs, const std::vector<Real>& qt, long blockSize, bool ogpp, int extra, Result& out, long* nbTasks = nullptr);
};

namespace {

bool g_calibrate = false;
double g_maxPot = 0, g_maxF = 0;
// convergence with the order (binaries built with -DORDERLOW=<lower order>): per eligible case the ratio error(high)/error(low)
struct Conv { double ratioPot, ratioF; FmmCase c; };
std::vector<Conv> g_conv;
struct ChainRatio { double rp, rf; FmmCase c; };
std::vector<ChainRatio> g_chain[9];
double g_chainMaxP[9] = {0,0,0,0,0,0,0,0,0}, g_chainMaxF[9] = {0,0,0,0,0,0,0,0,0};

} // namespace

// one complete FMM; charges may be overridden (linearity relation)
template <int ORD>
std::string Num<ORD>::runFmm(const FmmCase& c, const Config& config, const std::vector<Real>& qs, const std::vector<Real>& qt, long blockSize, bool ogpp, int extra, Result& out, long* nbTasks){
    std::vector<std::array<Real, 4>> src(c.pos.size()), tgt(c.tpos.size());
    for(size_t i = 0 ; i < src.size() ; ++i){ for(int d = 0 ; d < 3 ; ++d) src[i][size_t(d)] = Real(c.pos[i][size_t(d)]); src[i][3] = qs[i]; }
    for(size_t i = 0 ; i < tgt.size() ; ++i){ for(int d = 0 ; d < 3 ; ++d) tgt[i][size_t(d)] = Real(c.tpos[i][size_t(d)]); tgt[i][3] = qt[i]; }
#if TSMN
    std::unique_ptr<Tree> tree(new Tree(config, src, tgt, blockSize, ogpp));
#else
    std::unique_ptr<Tree> tree(new Tree(config, src, blockSize, ogpp));
#endif
    msched::global().reset(c.threads, c.sched);
    std::unique_ptr<KernelClass> kernel(makeKernel(config));
    if(Periodic){
        std::unique_ptr<Algo> algo(new Algo(config, *kernel, long(TbfDefaultLastLevelPeriodic)));
        const Config topConfig = TopAlgo::GenerateAboveTreeConfiguration(config, extra);
        std::unique_ptr<KernelClass> topKernel(makeKernel(topConfig));
        std::unique_ptr<TopAlgo> top(new TopAlgo(config, *topKernel, long(extra)));
        algo->execute(*tree, TbfAlgorithmUtils::TbfBottomToTopStages);
        top->execute(*tree);
        algo->execute(*tree, TbfAlgorithmUtils::TbfTransferStages);
        algo->execute(*tree, TbfAlgorithmUtils::TbfTopToBottomStages);
    }
    else{
        std::unique_ptr<Algo> algo(new Algo(config, *kernel));
        algo->execute(*tree);
    }
    if(nbTasks) *nbTasks = long(msched::global().tasks.size());
#if TSMN
    out.v.assign(tgt.size(), std::array<Real, 4>{{0, 0, 0, 0}});
    tree->applyToAllLeavesTarget([&](auto&& h, const long int* idx, auto&& /*data*/, auto&& rhs){ for(long i = 0 ; i < h.nbParticles ; ++i) for(size_t k = 0 ; k < 4 ; ++k) out.v[size_t(idx[i])][k] = rhs[k][i]; });
#else
    out.v.assign(src.size(), std::array<Real, 4>{{0, 0, 0, 0}});
    tree->applyToAllLeaves([&](auto&& h, const long int* idx, auto&& /*data*/, auto&& rhs){ for(long i = 0 ; i < h.nbParticles ; ++i) for(size_t k = 0 ; k < 4 ; ++k) out.v[size_t(idx[i])][k] = rhs[k][i]; });
#endif
    return "";
}

namespace {

struct Ref { long double f[3] = {0, 0, 0}, pot = 0, absF = 0, absPot = 0; };

std::string propNum(const FmmCase& c0, const std::string& prop){
    if(c0.dim != 3) return "SKIP wrong dimension";
    if(c0.real != RealCode) return "SKIP wrong coordinate type";
    hc::Stats& st = hc::stats();
    FmmCase c = c0;
#if !TSMN
    c.tpos = c.pos; c.tcharges = c.charges;
#endif
    if(c.pos.empty() || c.tpos.empty()) return "SKIP empty";
    if(c.charges.size() != c.pos.size() || c.tcharges.size() != c.tpos.size()) return "SKIP no charges";
    for(int d = 1 ; d < 3 ; ++d) if(c.width[size_t(d)] != c.width[0]) return "SKIP box not cubic";
    rm::ModelTree ms, mtg; ms.build<Real>(c, c.pos); mtg.build<Real>(c, c.tpos);
    // (uniform kernel: particles a few ulps from a cell face of a generic box are kept although the model cannot decide their leaf -
    // every oracle below except the scaling relation, which re-checks soundness itself, depends on positions only)
    if(!ms.allInBox || !mtg.allInBox) return "SKIP generator soundness";
    if(KERNEL != 2 && (!ms.allSound || !mtg.allSound)) return "SKIP generator soundness";
    if(!ms.allSound || !mtg.allSound) st.cls("particle-within-ulps-of-a-cell-face");
    const int H = c.height;
    if(Periodic && H < 2) return "SKIP periodic height";
    const int extra = Periodic ? std::min(std::max(c.extraLevels, -1), 2) : -2;
    std::array<Real, 3> w{{Real(c.width[0]), Real(c.width[0]), Real(c.width[0])}}, ctr{{Real(c.center[0]), Real(c.center[1]), Real(c.center[2])}};
    const Config config(H, w, ctr);
    std::vector<Real> qs(c.pos.size()), qt(c.tpos.size());
    for(size_t i = 0 ; i < qs.size() ; ++i) qs[i] = Real(c.charges[i]);
    for(size_t i = 0 ; i < qt.size() ; ++i) qt[i] = Real(c.tcharges[i]);
    const long bs = c.blockSize == -1 ? 7 : c.blockSize;

    Result res; long nbTasks = 0;
    std::string e = Num<ORDERV>::runFmm(c, config, qs, qt, bs, c.oneGroupPerParent != 0, extra, res, &nbTasks);
    if(!e.empty()) return e;

    // ---- reference: extended precision pairwise sum (over the images of the repetition interval when periodic)
    long lo = 0, hi = 0;
    if(Periodic){
        if(extra == -1){ lo = -1; hi = 1; } else if(extra == 0){ lo = -3; hi = 3; } else { const long r = 6 * (1L << extra); lo = -r / 2; hi = r / 2 - 1; }
        // the library reports the interval it covers; it must be the one used here
    }
    const long double W = (long double)w[0];
    std::vector<Ref> ref(c.tpos.size());
    for(size_t t = 0 ; t < c.tpos.size() ; ++t){
        const long double tx = (long double)Real(c.tpos[t][0]), ty = (long double)Real(c.tpos[t][1]), tz = (long double)Real(c.tpos[t][2]), tq = (long double)qt[t];
        Ref& r = ref[t];
        for(long ix = lo ; ix <= hi ; ++ix) for(long iy = lo ; iy <= hi ; ++iy) for(long iz = lo ; iz <= hi ; ++iz){
            for(size_t s = 0 ; s < c.pos.size() ; ++s){
                if(!TSMN && s == t && ix == 0 && iy == 0 && iz == 0) continue;
                const long double dx = (long double)Real(c.pos[s][0]) + ix * W - tx, dy = (long double)Real(c.pos[s][1]) + iy * W - ty, dz = (long double)Real(c.pos[s][2]) + iz * W - tz;
                const long double r2 = dx * dx + dy * dy + dz * dz;
                if(r2 == 0) return "SKIP coincident source and target";
                const long double rr = std::sqrt(r2), sq = (long double)qs[s];
                const long double cf = tq * sq / (r2 * rr);
                r.f[0] += cf * dx; r.f[1] += cf * dy; r.f[2] += cf * dz; r.pot += sq / rr;
                r.absF += std::fabs(tq * sq) / r2; r.absPot += std::fabs(sq) / rr;
            }
        }
    }
    std::string nonFinite;
    auto errorsOf = [&](const Result& r, int order, double& mp, double& mf){
        mp = 0; mf = 0;
        for(size_t t = 0 ; t < ref.size() ; ++t){
            for(size_t k = 0 ; k < 4 ; ++k) if(!std::isfinite(double(r.v[t][k])) && nonFinite.empty()){
                std::ostringstream os; os << KernelName << " order " << order << ": result " << k << " of particle " << t << " is not finite"; nonFinite = os.str(); }
            if(ref[t].absPot > 0) mp = std::max(mp, double(std::fabs((long double)r.v[t][3] - ref[t].pot) / ref[t].absPot));
            const long double ex = (long double)r.v[t][0] - ref[t].f[0], ey = (long double)r.v[t][1] - ref[t].f[1], ez = (long double)r.v[t][2] - ref[t].f[2];
            if(ref[t].absF > 0) mf = std::max(mf, double(std::sqrt(ex * ex + ey * ey + ez * ez) / ref[t].absF));
        }
    };
    double maxPot = 0, maxF = 0;
    errorsOf(res, ORDERV, maxPot, maxF);
    if(!nonFinite.empty()) return nonFinite;
#ifdef ORDERLOW
    {
        // the same case with the lower order: the error must shrink as the order grows
        Result low; e = Num<ORDERLOW>::runFmm(c, config, qs, qt, bs, c.oneGroupPerParent != 0, extra, low); if(!e.empty()) return e;
        double lp = 0, lf = 0; errorsOf(low, ORDERLOW, lp, lf);
        if(!nonFinite.empty()) return nonFinite;
        const double floorErr = RealCode ? 1e-4 : 1e-8;
        if(lp > floorErr && lf > floorErr){
            Conv cv; cv.ratioPot = maxPot / lp; cv.ratioF = maxF / lf; cv.c = c0;
            // hard per-case relation (very wide margin), the sharp statement is the aggregated one checked at the end of the campaign
            if(cv.ratioPot > nb::convHard(KERNEL) || cv.ratioF > nb::convHard(KERNEL)){
                std::ostringstream os; os << KernelName << ": the error does not shrink with the order: order " << ORDERLOW << " potential/force error " << lp << "/" << lf << ", order " << ORDERV << " " << maxPot << "/" << maxF;
                return os.str(); }
            g_conv.push_back(cv);
            st.cls("convergence-eligible-cases");
        }
    }
#endif
#ifdef ORDERCHAIN
    {
        // every order of the quantified range on the same case (uniform kernel: 3..8, each order has its own node and operator tables):
        // results finite for every order, and the error does not grow from one order to the next (hard per-case factor, median per pair
        // of adjacent orders over the campaign)
        double ep[9] = {0,0,0,0,0,0,0,0,0}, ef[9] = {0,0,0,0,0,0,0,0,0};
        auto runOrder = [&](auto tag) -> std::string {
            constexpr int O = decltype(tag)::value;
            Result r; std::string e2 = Num<O>::runFmm(c, config, qs, qt, bs, c.oneGroupPerParent != 0, extra, r); if(!e2.empty()) return e2;
            errorsOf(r, O, ep[O], ef[O]);
            return nonFinite;
        };
        e = runOrder(std::integral_constant<int, 3>{}); if(!e.empty()) return e;
        e = runOrder(std::integral_constant<int, 4>{}); if(!e.empty()) return e;
        e = runOrder(std::integral_constant<int, 5>{}); if(!e.empty()) return e;
        e = runOrder(std::integral_constant<int, 6>{}); if(!e.empty()) return e;
        e = runOrder(std::integral_constant<int, 7>{}); if(!e.empty()) return e;
        ep[8] = maxPot; ef[8] = maxF;
        const double floorErr = RealCode ? 1e-4 : 1e-9;
        for(int k = 3 ; k < 8 ; ++k){
            if(ep[k] > floorErr && ef[k] > floorErr){
                const double rp = ep[k + 1] / ep[k], rf = ef[k + 1] / ef[k];
                g_chain[k].push_back(ChainRatio{rp, rf, c0});
                g_chainMaxP[k] = std::max(g_chainMaxP[k], rp); g_chainMaxF[k] = std::max(g_chainMaxF[k], rf);
                // per case only the force ratio is asserted: the maximum potential error of a low order can be accidentally tiny on one
                // case (seen: 1.1e-7 at order 3, ratio 330 to order 4), the potential is covered by the campaign median
                if(!g_calibrate && rf > nb::chainHard()){
                    std::ostringstream os; os << KernelName << ": the error grows with the order: order " << k << " potential/force error " << ep[k] << "/" << ef[k] << ", order " << k + 1 << " " << ep[k + 1] << "/" << ef[k + 1];
                    return os.str(); }
            }
        }
        st.cls("order-chain-cases");
    }
#endif
    g_maxPot = std::max(g_maxPot, maxPot); g_maxF = std::max(g_maxF, maxF);
    const double bPot = nb::boundPot(KERNEL, ORDERV, RealCode, Periodic), bF = nb::boundForce(KERNEL, ORDERV, RealCode, Periodic);
    if(!g_calibrate){
        if(maxPot > bPot){ std::ostringstream os; os << KernelName << " order " << ORDERV << ": potential error " << maxPot << " (normalised by the sum of absolute pair contributions) exceeds the bound " << bPot << " of this order"; return os.str(); }
        if(maxF > bF){ std::ostringstream os; os << KernelName << " order " << ORDERV << ": force error " << maxF << " exceeds the bound " << bF << " of this order"; return os.str(); }
    }
    // record for the cross-order comparison done by the driver (same seed => same cases in the binaries of all orders)
    {
        char buf[200]; snprintf(buf, sizeof buf, "%llx %.6e %.6e %zu %d", (unsigned long long)hc::hashCase(c0), maxPot, maxF, c.pos.size(), H);
        if(st.records.size() < 20000) st.records.push_back(buf);
    }

    // ---- metamorphic relations, to rounding: tolerance 512 eps x sum of absolute contributions
    // "to rounding": the evaluation is a chain of linear maps whose rounding noise is amplified by the interpolation / FFT (uniform
    // kernel) resp. the rotations (rotation kernel); a regrouping only changes summation orders. The tolerance is therefore a
    // relative 1e-9 (1e-12 rotation) of the sum of absolute contributions in double, 2e-4 (2e-5) in float: far below the effect of a
    // lost, duplicated or stale contribution (>= the truncation error of the order), far above reordering noise (measured <= 3e-12).
    const long double eps = (KERNEL == 2 ? (RealCode ? 2e-4L : 1e-9L) : (RealCode ? 2e-5L : 1e-12L)) / 512;
    auto closeTo = [&](const Result& a, const Result& b, long double scalePot, long double scaleF, const char* what) -> std::string {
        for(size_t t = 0 ; t < ref.size() ; ++t){
            const long double tolP = 512 * eps * ref[t].absPot * scalePot + 64 * std::numeric_limits<Real>::min(), tolF = 512 * eps * ref[t].absF * scaleF + 64 * std::numeric_limits<Real>::min();
            if(std::fabs((long double)a.v[t][3] - (long double)b.v[t][3]) > tolP){ std::ostringstream os; os << KernelName << " order " << ORDERV << ": potential of particle " << t << " changes with " << what << " (" << double(a.v[t][3]) << " vs " << double(b.v[t][3]) << ", tolerance " << double(tolP) << ")"; return os.str(); }
            for(size_t k = 0 ; k < 3 ; ++k) if(std::fabs((long double)a.v[t][k] - (long double)b.v[t][k]) > tolF){ std::ostringstream os; os << KernelName << " order " << ORDERV << ": force of particle " << t << " changes with " << what << " (" << double(a.v[t][k]) << " vs " << double(b.v[t][k]) << ", tolerance " << double(tolF) << ")"; return os.str(); }
        }
        return "";
    };
    const int which = int(c.salt % 3);
    if(which == 0 && c.blockSize2 != 0){
        // (i) grouping
        Result r2; const long bs2 = c.blockSize2 == -1 ? 3 : c.blockSize2;
        e = Num<ORDERV>::runFmm(c, config, qs, qt, bs2, c.oneGroupPerParent2 != 0, extra, r2); if(!e.empty()) return e;
        e = closeTo(res, r2, 1, 1, "the block size / grouping mode"); if(!e.empty()) return e;
        st.cls("relation:grouping");
    }
    else if(which == 1){
        // (ii) linear splitting of the source charges: q = 2*q1 + q2  (targets keep their charge: potentials and forces are linear in the sources)
        std::vector<Real> q1(qs.size()), q2(qs.size());
        for(size_t i = 0 ; i < qs.size() ; ++i){ q1[i] = Real(qs[i] * Real(0.25) * Real(1 + (gf::splitmix(c.salt + i) % 3))); q2[i] = Real(qs[i] - 2 * q1[i]); }
        Result ra, rb;
#if TSMN
        e = Num<ORDERV>::runFmm(c, config, q1, qt, bs, c.oneGroupPerParent != 0, extra, ra); if(!e.empty()) return e;
        e = Num<ORDERV>::runFmm(c, config, q2, qt, bs, c.oneGroupPerParent != 0, extra, rb); if(!e.empty()) return e;
        Result sum = ra; for(size_t t = 0 ; t < sum.v.size() ; ++t) for(size_t k = 0 ; k < 4 ; ++k) sum.v[t][k] = Real(2 * ra.v[t][k] + rb.v[t][k]);
        e = closeTo(res, sum, 3, 3, "a linear splitting of the source charges"); if(!e.empty()) return e;
        st.cls("relation:charge-linearity");
#else
        // single tree: sources are the targets; use the exact scaling q -> 2q instead (potential x2, force x4, exactly)
        for(size_t i = 0 ; i < qs.size() ; ++i) q1[i] = Real(2 * qs[i]);
        e = Num<ORDERV>::runFmm(c, config, q1, q1, bs, c.oneGroupPerParent != 0, extra, ra); if(!e.empty()) return e;
        for(size_t t = 0 ; t < ra.v.size() ; ++t){ ra.v[t][3] = Real(ra.v[t][3] / 2); for(size_t k = 0 ; k < 3 ; ++k) ra.v[t][k] = Real(ra.v[t][k] / 4); }
        e = closeTo(res, ra, 1, 1, "doubling every charge (potential / 2, force / 4)"); if(!e.empty()) return e;
        st.cls("relation:charge-scaling");
        (void)rb; (void)q2;
#endif
    }
    else{
        // (iii) power-of-two scaling and dyadic shift of box and positions: potential / s, force / s^2
        FmmCase cs;
        const int sexp = (KERNEL == 1 && RealCode) ? int(gf::splitmix(c.salt) % 2) * 2 - 1 : int(gf::splitmix(c.salt) % 6) - 3;   // float rotation: see F-ROT-FLOAT-RANGE
        const Real s = Real(std::ldexp(1.0, sexp >= 0 && !(KERNEL == 1 && RealCode) ? sexp + 1 : sexp));               // never 1
        Real shift = Real(std::ldexp(1.0, std::ilogb(double(w[0])) + 1 + int(c.salt % 2))) * Real(int(gf::splitmix(c.salt + 3) % 5) - 2);
        std::array<Real, 3> w2, c2;
        bool exact = false;
        // the relation is exact only when the shifted coordinates are exactly representable: check, else fall back to the pure
        // power-of-two scaling (always exact)
        for(int attempt = 0 ; attempt < 2 && !exact ; ++attempt){
            if(attempt == 1) shift = 0;
            cs = c;
            auto mapPos = [&](std::vector<Pos4>& v){ for(auto& p : v) for(int d = 0 ; d < 3 ; ++d) p[size_t(d)] = double(Real((Real(p[size_t(d)]) + shift) * s)); };
            mapPos(cs.pos); mapPos(cs.tpos);
            w2 = {{Real(w[0] * s), Real(w[0] * s), Real(w[0] * s)}}; c2 = {{Real((ctr[0] + shift) * s), Real((ctr[1] + shift) * s), Real((ctr[2] + shift) * s)}};
            for(int d = 0 ; d < 3 ; ++d){ cs.center[size_t(d)] = double(c2[size_t(d)]); cs.width[size_t(d)] = double(w2[size_t(d)]); }   // the model of the transformed case uses the transformed box
            exact = true;
            for(size_t i = 0 ; i < c.pos.size() && exact ; ++i) for(int d = 0 ; d < 3 ; ++d) if(((long double)Real(c.pos[i][size_t(d)]) + (long double)shift) * (long double)s != (long double)Real(cs.pos[i][size_t(d)])) exact = false;
            for(size_t i = 0 ; i < c.tpos.size() && exact ; ++i) for(int d = 0 ; d < 3 ; ++d) if(((long double)Real(c.tpos[i][size_t(d)]) + (long double)shift) * (long double)s != (long double)Real(cs.tpos[i][size_t(d)])) exact = false;
            for(int d = 0 ; d < 3 ; ++d) if(((long double)ctr[size_t(d)] + (long double)shift) * (long double)s != (long double)c2[size_t(d)]) exact = false;
        }
        if(exact){
            const Config config2(H, w2, c2);
            rm::ModelTree m2; m2.build<Real>(cs, cs.tpos);
            // the corner of the scaled box must be the scaled corner (else leaves may differ): require the same leaf for every particle
            bool sameLeaves = ms.allSound && mtg.allSound && (m2.leafOf == mtg.leafOf) && m2.allInBox && m2.allSound;
            if(sameLeaves){ rm::ModelTree m3; m3.build<Real>(cs, cs.pos); sameLeaves = (m3.leafOf == ms.leafOf) && m3.allInBox && m3.allSound; }
            if(sameLeaves){
                Result r2; e = Num<ORDERV>::runFmm(cs, config2, qs, qt, bs, c.oneGroupPerParent != 0, extra, r2); if(!e.empty()) return e;
                for(size_t t = 0 ; t < r2.v.size() ; ++t){ r2.v[t][3] = Real(r2.v[t][3] * s); for(size_t k = 0 ; k < 3 ; ++k) r2.v[t][k] = Real(r2.v[t][k] * s * s); }
                // the P2P part sees coordinates that differ by the shift: allow the rounding of (x+shift) differences
                e = closeTo(res, r2, 4, 4, "a power-of-two scaling and dyadic shift of the box"); if(!e.empty()) return e;
                st.cls(shift != 0 ? "relation:scaling-and-shift" : "relation:scaling");
            }
        }
    }

    st.cls("H=" + std::to_string(H));
    if(Periodic) st.cls("extra=" + std::to_string(extra));
    int m2mLevels = std::max(0, H - 2 - (Periodic ? 1 : 2) + 1);
    st.cls("m2m-levels:" + std::string(m2mLevels == 0 ? "0" : (m2mLevels == 1 ? "1" : ">=2")));
    bool hasFar = false;
    for(int l = (Periodic ? 1 : 2) ; l < H && !hasFar ; ++l) for(const auto& T : mtg.cells[size_t(l)]){ for(const rm::Pair& p : rm::transferList(3, l, T, Periodic)) if(ms.has(l, p.src)){ hasFar = true; break; } if(hasFar) break; }
    if(hasFar) st.cls("has-far-field");
    if(hasFar && m2mLevels >= (prop == "C04" || prop == "C05" ? 1 : 0)) st.noteNontrivial(hc::hashCase(c0), c0);
    (void)nbTasks;
    return "";
}

} // namespace

int main(int argc, char** argv){
    hc::Args a = hc::parseArgs(argc, argv);
    if(a.prop.empty()){ std::cerr << "usage: --prop C04|C05 ...\n"; return 2; }
    const std::string prop = a.prop;
    g_calibrate = a.mode == "calibrate";
    pbt::GenCfg g; g.dim = 3; g.real = RealCode; g.cubic = true; g.charges = true; g.noCoincident = true; g.noCentre = true; g.exactFacesOnly = true; g.twoGroupings = true; g.autoBlock = false;
    g.tsm = TSMN != 0; g.periodic = Periodic; g.maxExtraLevels = 2;
    // heights: rotation kernel 1..7 (C04's quantifier), uniform kernel 1..6 (C05's), periodic 2..4 (cost of the image sum), float <= 5
    g.minH = Periodic ? 2 : 1; g.maxH = int(a.getInt("maxh", Periodic ? 4 : (KERNEL == 1 ? 7 : 6))); g.maxN = int(a.getInt("maxn", Periodic ? 60 : 300));
    if(RealCode == 1) g.maxH = std::min(g.maxH, 5);
    if(KERNEL == 2 && RealCode == 0) g.ulpFacesGeneric = true;   // (float: a 3 ulp offset already exceeds the 10 eps tolerance of the kernel assertion - F-UNIF-ROOTS-ASSERT)
    if(RealCode == 1 && KERNEL == 1) g.widthDecades = 1;     // float rotation kernel: box width^(P+1) must stay in the float range (known finding F-ROT-FLOAT-RANGE)
#if RT == 1
    g.schedules = true; g.executors = 2;
#endif
    // FFTW planning and the construction message of the uniform kernel go to stdout: keep stdout for the verdict
    hc::FinalCheck fin;
#ifdef ORDERLOW
    fin = [&](std::vector<FmmCase>& worst) -> std::string {
        // aggregated convergence: over the eligible cases of this campaign the median ratio error(high)/error(low) is far below 1
        if(g_conv.size() < 25) return "";
        std::vector<double> rp, rf; for(const auto& x : g_conv){ rp.push_back(x.ratioPot); rf.push_back(x.ratioF); }
        std::sort(rp.begin(), rp.end()); std::sort(rf.begin(), rf.end());
        const double medP = rp[rp.size() / 2], medF = rf[rf.size() / 2];
        hc::stats().cls("convergence-median-ratio-potential-x1e6", long(medP * 1e6)); hc::stats().cls("convergence-median-ratio-force-x1e6", long(medF * 1e6));
        if(medP <= nb::convMedian(KERNEL) && medF <= nb::convMedian(KERNEL)) return "";
        std::sort(g_conv.begin(), g_conv.end(), [](const Conv& x, const Conv& y){ return x.ratioPot > y.ratioPot; });
        for(size_t i = 0 ; i < g_conv.size() && i < 40 ; ++i) worst.push_back(g_conv[i].c);
        std::ostringstream os; os << KernelName << ": over " << g_conv.size() << " cases the median ratio error(order " << ORDERV << ")/error(order " << ORDERLOW << ") is " << medP << " (potential) / " << medF
                                  << " (force), bound " << nb::convMedian(KERNEL) << ": the error does not shrink as the order grows";
        return os.str();
    };
#endif
#ifdef ORDERCHAIN
    fin = [&](std::vector<FmmCase>& worst) -> std::string {
        for(int k = 3 ; k < 8 ; ++k){
            auto& v = g_chain[k];
            if(v.size() < 15) continue;
            std::vector<double> rp, rf; for(const auto& x : v){ rp.push_back(x.rp); rf.push_back(x.rf); }
            std::sort(rp.begin(), rp.end()); std::sort(rf.begin(), rf.end());
            const double medP = rp[rp.size() / 2], medF = rf[rf.size() / 2];
            hc::stats().cls("chain-median-ratio-potential-x1e6:order" + std::to_string(k) + "->" + std::to_string(k + 1), long(medP * 1e6));
            hc::stats().cls("chain-median-ratio-force-x1e6:order" + std::to_string(k) + "->" + std::to_string(k + 1), long(medF * 1e6));
            if(g_calibrate) std::cout << "CHAIN order " << k << "->" << k + 1 << " n=" << v.size() << " medianPot=" << medP << " medianForce=" << medF << " maxPot=" << g_chainMaxP[k] << " maxForce=" << g_chainMaxF[k] << std::endl;
            if(g_calibrate || (medP <= nb::chainMedian() && medF <= nb::chainMedian())) continue;
            std::sort(v.begin(), v.end(), [](const ChainRatio& x, const ChainRatio& y){ return x.rp > y.rp; });
            for(size_t i = 0 ; i < v.size() && i < 40 ; ++i) worst.push_back(v[i].c);
            std::ostringstream os; os << KernelName << ": over " << v.size() << " cases the median ratio error(order " << k + 1 << ")/error(order " << k << ") is " << medP << " (potential) / " << medF
                                      << " (force), bound " << nb::chainMedian() << ": the error does not decrease as the order grows";
            return os.str();
        }
        return "";
    };
#endif
    const int rc = hc::runMain(a, g, [&](const FmmCase& c){ return propNum(c, prop); }, fin);
    if(g_calibrate) std::cout << "CALIBRATION kernel=" << KERNEL << " order=" << ORDERV << " real=" << RealCode << " periodic=" << Periodic << " maxPot=" << g_maxPot << " maxForce=" << g_maxF << std::endl;
    return rc;
}
