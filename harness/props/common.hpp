// Shared scaffolding of the property binaries: statistics, command line, run/replay loop.
#ifndef VERIF_COMMON_HPP
#define VERIF_COMMON_HPP

#include "../model/fmmcase.hpp"
#include "../model/json.hpp"
#include "../pbt/pbt.hpp"

#include <map>
#include <set>
#include <string>
#include <vector>
#include <cstdio>
#include <cstdlib>
#include <cstring>
#include <iostream>
#include <functional>
#include <unistd.h>
#include <sys/wait.h>

namespace hc {

// Counters describing what the generator actually produced (dumped to --out).
struct Stats {
    long evaluations = 0;
    long skipped = 0;
    long nontrivial = 0;
    std::set<uint64_t> distinctNontrivial;
    std::map<std::string, long> classes;
    std::vector<std::string> samples;
    std::string outPath;
    long sinceDump = 0;

    void cls(const std::string& k, long n = 1){ classes[k] += n; }
    void noteNontrivial(uint64_t hash, const FmmCase& c){
        nontrivial += 1;
        if(distinctNontrivial.insert(hash).second && samples.size() < 6 && (distinctNontrivial.size() % 7 == 1)) samples.push_back(c.brief());
    }
    vj::Value toJson() const {
        vj::Value j = vj::Value::object();
        j["evaluations"] = evaluations; j["skipped"] = skipped; j["nontrivial"] = nontrivial;
        j["distinct_nontrivial"] = (long)distinctNontrivial.size();
        vj::Value c = vj::Value::object(); for(const auto& kv : classes) c[kv.first] = kv.second; j["classes"] = c;
        vj::Value s = vj::Value::array(); for(const auto& x : samples) s.push(vj::Value(x)); j["samples"] = s;
        // hashes allow the driver to count distinct cases across worker processes
        vj::Value h = vj::Value::array(); long k = 0; for(uint64_t x : distinctNontrivial){ if(k++ > 200000) break; h.push(vj::Value((long long)(x >> 1))); } j["hashes"] = h;
        return j;
    }
    void dump() const { if(!outPath.empty()) vj::writeFile(outPath, toJson()); }
    void maybeDump(){ if(++sinceDump >= 500){ sinceDump = 0; dump(); } }
};

inline Stats& stats(){ static Stats s; return s; }

inline uint64_t hashCase(const FmmCase& c){
    // structural hash of everything that defines the case
    const std::string s = c.toJson().dump();
    uint64_t h = 1469598103934665603ull;
    for(unsigned char ch : s){ h ^= ch; h *= 1099511628211ull; }
    return h;
}

struct Args {
    std::string prop, out, fail, replay, cur, mode;
    unsigned long seed = 1;
    int cases = 100, size = 100;
    std::map<std::string, std::string> kv;
    std::string get(const std::string& k, const std::string& d = "") const { auto it = kv.find(k); return it == kv.end() ? d : it->second; }
    long getInt(const std::string& k, long d) const { auto it = kv.find(k); return it == kv.end() ? d : atol(it->second.c_str()); }
};

inline Args parseArgs(int argc, char** argv){
    Args a;
    for(int i = 1 ; i < argc ; ++i){
        std::string k = argv[i];
        if(k.rfind("--", 0) == 0 && i + 1 < argc){
            std::string v = argv[++i]; k = k.substr(2); a.kv[k] = v;
            if(k == "prop") a.prop = v; else if(k == "out") a.out = v; else if(k == "fail") a.fail = v;
            else if(k == "replay") a.replay = v; else if(k == "cur") a.cur = v; else if(k == "mode") a.mode = v;
            else if(k == "seed") a.seed = strtoul(v.c_str(), nullptr, 10);
            else if(k == "cases") a.cases = atoi(v.c_str()); else if(k == "size") a.size = atoi(v.c_str());
        }
    }
    return a;
}

// Runs the campaign or the replay. The property returns "" / "SKIP..." / failure text.
// Exit codes: 0 held, 1 failure (FAIL line printed, case written to --fail), 3 harness/model error.
inline int runMain(const Args& a, const pbt::GenCfg& cfg, const pbt::Prop& prop){
    stats().outPath = a.out;
    const bool isolate = a.getInt("isolate", 0) != 0;
    // isolate mode: every evaluation runs in a forked child so that an abort (assert, sanitizer) is an
    // ordinary failure that rapidcheck can shrink
    auto isolated = [&](const FmmCase& c) -> std::string {
        int fd[2];
        if(pipe(fd) != 0) return prop(c);
        fflush(stdout); fflush(stderr);
        const pid_t pid = fork();
        if(pid == 0){
            close(fd[0]);
            std::string r = prop(c);
            if(r.size() > 4000) r.resize(4000);
            ssize_t w = write(fd[1], r.data(), r.size()); (void)w;
            close(fd[1]);
            _exit(0);
        }
        close(fd[1]);
        std::string r; char buf[512]; ssize_t n;
        while((n = read(fd[0], buf, sizeof buf)) > 0) r.append(buf, size_t(n));
        close(fd[0]);
        int status = 0; waitpid(pid, &status, 0);
        if(WIFEXITED(status) && WEXITSTATUS(status) == 0) return r;
        return "crash: the case aborts the process (assertion or sanitizer report)";
    };
    auto wrapped = [&](const FmmCase& c) -> std::string {
        if(!a.cur.empty()) vj::writeFile(a.cur, c.toJson());   // survives a sanitizer abort
        stats().evaluations += 1;
        std::string r = isolate ? isolated(c) : prop(c);
        if(r.compare(0, 4, "SKIP") == 0) stats().skipped += 1;
        stats().maybeDump();
        return r;
    };
    if(!a.replay.empty()){
        FmmCase c = FmmCase::fromJson(vj::parseFile(a.replay));
        std::string r = wrapped(c);
        stats().dump();
        if(r.empty() || r.compare(0, 4, "SKIP") == 0){ std::cout << "REPLAY-OK " << r << std::endl; return 0; }
        if(r.compare(0, 11, "MODEL-ERROR") == 0){ std::cout << r << std::endl; return 3; }
        std::cout << "FAIL " << r << std::endl;
        return 1;
    }
    pbt::RunResult res = pbt::run(a.prop, cfg, wrapped, a.seed, a.cases, a.size);
    stats().dump();
    if(res.ok){ std::cout << "HELD cases=" << res.executed << std::endl; return 0; }
    if(res.message.empty()){ std::cout << "INCONCLUSIVE generator gave up (too many discards)" << std::endl; return 0; }
    if(res.message.compare(0, 11, "MODEL-ERROR") == 0){ std::cout << res.message << std::endl; return 3; }
    if(!a.fail.empty()) vj::writeFile(a.fail, res.failing.toJson());
    std::cout << "FAIL " << res.message << "\nSHRUNK after " << res.shrinkSteps << " steps: " << res.failing.brief() << std::endl;
    return 1;
}

} // namespace hc

#endif
