// Property binary: move / rebuild / execute histories (C13; also C17 and C07 on rebuilt trees).
// -DDIM -DNX -DREALT -DDATAT -DPERIODIC=0|1 (ordering given to the tree: plain or periodic Morton)
#ifndef DIM
#define DIM 3
#endif
#ifndef NX
#define NX 2
#endif
#ifndef REALT
#define REALT double
#endif
#ifndef DATAT
#define DATAT REALT
#endif
#ifndef PERIODIC
#define PERIODIC 0
#endif
#ifndef ORD
#define ORD PERIODIC      // 0 Morton, 1 periodic Morton, 2 Hilbert (3-D)
#endif
#ifndef EXEC
#define EXEC 0            // 0 sequential, 1 OpenMP (mock runtime)
#endif

#include "fmmharness.hpp"
#include "spacial/tbfhilbertspaceindex.hpp"
#include "../runtimes/sched.hpp"
#if EXEC == 1
#include "algorithms/openmp/tbfopenmpalgorithm.hpp"
#endif

using Real = REALT;
using DataT = DATAT;
constexpr int Dim = DIM;
constexpr long NbData = Dim + NX;
// positions are generated in the narrower of the two types so that they are exactly representable in both
constexpr int RealCode = (std::is_same<Real, float>::value || std::is_same<DataT, float>::value) ? 1 : 0;
constexpr bool Periodic = (ORD == 1);
constexpr bool Hilbert = (ORD == 2);
using Config = TbfSpacialConfiguration<Real, Dim>;
#if ORD == 2
using SI = TbfHilbertSpaceIndex<Dim, Config, false>;
#elif DIM == 3
// the 3-D configurations are named through the documented default aliases of tbfglobal.hpp (what README-style user code writes):
// an alias that does not thread the coordinate type or the periodic flag through is a configuration that does not build
using SI = typename std::conditional<Periodic, TbfDefaultSpaceIndexTypePeriodic<Real>, TbfDefaultSpaceIndexType<Real>>::type;
static_assert(std::is_same<SI, TbfMortonSpaceIndex<Dim, Config, Periodic>>::value, "the documented default space index alias does not name the Morton ordering of this coordinate type / periodicity");
#else
using SI = TbfMortonSpaceIndex<Dim, Config, Periodic>;
#endif
using Tree = TbfTree<Real, DataT, NbData, uint64_t, gf::NEVAL + 1, gf::Val, gf::Val, SI>;
using Kernel = probe::GfKernel<Real, SI>;
#if EXEC == 1
using Algo = TbfOpenmpAlgorithm<Real, Kernel, SI>;
#else
using Algo = TbfAlgorithm<Real, Kernel, SI>;
#endif

namespace {
using rm::Coord;
bool g_hilbertGeometry = false;   // probe of F-HILBERT: assert the full geometric oracles on the Hilbert ordering too

std::vector<std::vector<long>> groupShape(const Tree& t){
    std::vector<std::vector<long>> s;
    for(long l = 0 ; l < t.getHeight() ; ++l){
        std::vector<long> v;
        for(const auto& g : t.getCellGroupsAtLevel(l)){ v.push_back(-1); for(long i = 0 ; i < g.getNbCells() ; ++i) v.push_back(g.getCellSpacialIndex(i)); }
        s.push_back(v);
    }
    std::vector<long> v;
    for(const auto& g : t.getParticleGroups()){ v.push_back(-1); for(long i = 0 ; i < g.getNbLeaves() ; ++i){ v.push_back(g.getLeafSpacialIndex(i)); v.push_back(g.getNbParticlesInLeaf(i)); } }
    s.push_back(v);
    return s;
}

std::string propRebuild(const FmmCase& c0, const std::string& prop){
    if(c0.dim != Dim) return "SKIP wrong dimension";
    if(c0.real != RealCode) return "SKIP wrong coordinate type";
    hc::Stats& st = hc::stats();
    FmmCase c = c0;      // positions are edited cycle after cycle
    const int H = c.height;
    const int lstop = Periodic ? 1 : 2;
    const Config config = fh::makeConfig<Real, Dim>(c);
    rm::ModelTree mt; mt.build<Real>(c, c.pos);
    if(!mt.allInBox || !mt.allSound) return "SKIP generator soundness";
    auto in = fh::makeInput<Real, DataT, NbData>(c, c.pos, c.extra, Dim, c.nextra);
    std::unique_ptr<Tree> tree;
    {
        fh::ScopedBlockEnv env(c.blockSize == -1 ? c.envBlock : 0);
        if(c.blockSize == -1) tree.reset(new Tree(config, in.data));      // automatic block size
        else tree.reset(new Tree(config, in.data, c.blockSize, c.oneGroupPerParent != 0));
    }
    const long bs = tree->getNbElementsPerGroup();
    const bool ogpp = c.blockSize == -1 ? false : (c.oneGroupPerParent != 0);
    if(bs < 1) return "automatic block size is " + std::to_string(bs);
    if(c.variant & 1) c.cycles.clear();      // configuration without rebuild

    const bool relaxed = Hilbert && !g_hilbertGeometry;
    probe::Ctx ctx(c.salt, relaxed);
    ctx.dim = Dim; ctx.height = H; ctx.base = H - 1; ctx.periodic = Periodic; ctx.hilbert = relaxed; ctx.checking = !relaxed;
    msched::global().reset(c.threads, c.sched);
    {
        std::string e = fh::checkStructure<Dim>(*tree, mt, bs, ogpp, nullptr, !relaxed);
        if(!e.empty()) return "structure: " + e;
        e = fh::checkConstruction<Dim>(*tree, mt, in.rows, true);
        if(!e.empty()) return "construction: " + e;
    }
    std::vector<gf::Val> accumulated(c.pos.size(), gf::zero());
    long nbRebuilds = 0, nbExecutes = 0; bool shapeChanged = false;

    std::unique_ptr<Algo> algoPtr;
    auto execute = [&]() -> std::string {
        ctx.reset(); ctx.multAddr.clear(); ctx.localAddr.clear();
        ctx.leafOf[0] = &mt.leafOf; ctx.rows[0] = &in.rows;
        fh::registerCells<Dim>(*tree, ctx);
        {
            std::vector<uint32_t> s2 = c.sched; if(!s2.empty()) s2.push_back(uint32_t(nbExecutes) * 2246822519u);
            msched::global().reset(c.threads, s2);
        }
        // ONE algorithm object for the whole history (the README loop: move, rebuild, execute again with the same object): state an
        // executor keeps between executions (caches keyed by group bounds, per-worker kernels) meets the rebuilt tree
        if(!algoPtr){
            if(EXEC == 1 && c.threadsCtor > 0){ const auto keep = msched::global().decisions; msched::global().nbThreads = c.threadsCtor; (void)keep; }
            algoPtr.reset(new Algo(config, Kernel(&ctx), long(lstop)));
        }
        msched::global().nbThreads = std::max(1, c.threads);
        algoPtr->execute(*tree);
        nbExecutes += 1;
        rm::Expect ex(ctx.P, mt, Periodic, 0);
        std::map<Coord, gf::Val> perLeaf;
        for(size_t i = 0 ; i < accumulated.size() ; ++i){
            const Coord T = mt.leafOf[i];
            auto it = perLeaf.find(T);
            if(it == perLeaf.end()){
                gf::Val v = gf::zero();
                if(H > lstop) gf::addPlain(v, ex.farAtLeaf(T, lstop));
                gf::addPlain(v, ex.nearField(T, -1));
                it = perLeaf.emplace(T, v).first;
            }
            gf::Val v = it->second;
            for(int k = 0 ; k < gf::NEVAL ; ++k) v.v[k] = gf::sub(v.v[k], ctx.P.weight(k, long(i), 0));
            v.cnt -= 1;
            gf::addPlain(accumulated[i], v);
        }
        if(!ctx.errors.empty()) return "arguments after rebuild: " + ctx.errors.front();
        return "";
    };
    auto checkResults = [&](const char* when) -> std::string {
        long dummy = 0;
        std::string e = fh::checkParticleValues<Dim>(*tree, mt, [&](const Coord&, long id){ return accumulated[size_t(id)]; }, dummy);
        if(!e.empty()) return std::string(when) + ": " + e;
        return "";
    };

    // user code may add to the results between executions (the accessors hand out mutable result rows): a particle-specific amount is
    // added to every result value, so that no two particles hold the same value in any column (after a full execution the
    // contribution count is the same for all particles, and a rebuild that permutes that column would be invisible)
    long nbPerturb = 0;
    auto perturb = [&](){
        nbPerturb += 1;
        tree->applyToAllLeaves([&](auto&& header, const long int* idx, auto&& /*data*/, auto&& rhs){
            for(long i = 0 ; i < header.nbParticles ; ++i){
                const size_t id = size_t(idx[i]);
                gf::Val add;
                for(int k = 0 ; k < gf::NEVAL ; ++k) add.v[k] = gf::splitmix(c0.salt * 31 + uint64_t(id) * 7 + uint64_t(k) + uint64_t(nbPerturb) * 1000003u) % gf::P;
                add.cnt = long(gf::splitmix(c0.salt + uint64_t(id) * 13 + uint64_t(nbPerturb)) % 1000) + 1;
                for(int k = 0 ; k < gf::NEVAL ; ++k) rhs[size_t(k)][i] = gf::add(uint64_t(rhs[size_t(k)][i]), add.v[k]);
                rhs[gf::NEVAL][i] += add.cnt;
                gf::addPlain(accumulated[id], add);
            }
        });
    };

    // initial execution so that results exist before the first rebuild
    { std::string e = execute(); if(!e.empty()) return e; e = checkResults("after the first execution"); if(!e.empty()) return e; }
    perturb();
    { std::string e = checkResults("after adding to the results through the accessors"); if(!e.empty()) return "MODEL-ERROR " + e; }

    for(size_t cy = 0 ; cy < c.cycles.size() ; ++cy){
        // ---- edit positions in place
        std::map<long, Pos4> moves;
        for(const MoveOp& m : c.cycles[cy]) if(m.set == 0 && m.index >= 0 && size_t(m.index) < c.pos.size()) moves[m.index] = m.pos;
        for(const auto& kv : moves) c.pos[size_t(kv.first)] = kv.second;
        rm::ModelTree nmt; nmt.build<Real>(c, c.pos);
        if(!nmt.allInBox || !nmt.allSound) return "SKIP generator soundness (moved position)";
        const size_t leavesBefore = mt.leaves.size();
        tree->applyToAllLeaves([&](auto&& header, const long int* idx, auto&& data, auto&& /*rhs*/){
            for(long i = 0 ; i < header.nbParticles ; ++i){
                auto it = moves.find(idx[i]);
                if(it == moves.end()) continue;
                for(int d = 0 ; d < Dim ; ++d) data[size_t(d)][i] = DataT(Real(it->second[size_t(d)]));
            }
        });
        for(const auto& kv : moves) for(int d = 0 ; d < Dim ; ++d) in.rows[size_t(kv.first)][size_t(d)] = double(DataT(Real(kv.second[size_t(d)])));
        for(const auto& kv : moves) for(int d = 0 ; d < Dim ; ++d) in.data[size_t(kv.first)][size_t(d)] = DataT(Real(kv.second[size_t(d)]));
        mt = nmt;
        if(mt.leaves.size() != leavesBefore) shapeChanged = true;

        // ---- rebuild
        tree->rebuild();
        nbRebuilds += 1;
        std::string e = fh::checkStructure<Dim>(*tree, mt, bs, ogpp, nullptr, !relaxed);
        if(!e.empty()) return "structure after rebuild: " + e;
        e = fh::checkConstruction<Dim>(*tree, mt, in.rows, false);
        if(!e.empty()) return "after rebuild: " + e;
        e = checkResults("results preserved by rebuild");
        if(!e.empty()) return e;
        bool zero = true;
        tree->applyToAllCells([&](const long, auto&&, auto&& m, auto&& l){ if(!gf::isZero(m->get()) || !gf::isZero(l->get())) zero = false; });
        if(!zero) return "cell expansions are not reset to zero by rebuild";
        {
            // equivalent to a tree freshly built from the edited particles
            Tree fresh(config, in.data, bs, ogpp);   // bs = the size chosen at construction (kept by rebuild)
            if(groupShape(fresh) != groupShape(*tree)) return "rebuilt tree is not grouped like a tree freshly built from the edited particles";
        }
        if(prop == "C17"){
            auto data = tree->getAllParticlesData(); auto rhs = tree->getAllParticlesRhs();
            for(size_t i = 0 ; i < c.pos.size() ; ++i){
                for(long v = 0 ; v < NbData ; ++v) if(double(data[i][size_t(v)]) != in.rows[i][size_t(v)]) return "export after rebuild: data of particle " + std::to_string(i) + " value " + std::to_string(v) + " is " + std::to_string(double(data[i][size_t(v)])) + " expected " + std::to_string(in.rows[i][size_t(v)]);
                for(int k = 0 ; k < gf::NEVAL ; ++k) if(rhs[i][size_t(k)] != accumulated[i].v[k]) return "export after rebuild: result of particle " + std::to_string(i) + " differs";
                if(long(rhs[i][gf::NEVAL]) != accumulated[i].cnt) return "export after rebuild: contribution count of particle " + std::to_string(i) + " differs";
            }
        }
        // ---- one more full interaction on top of the preserved results
        e = execute(); if(!e.empty()) return e;
        e = checkResults("after rebuild + execution");
        if(!e.empty()) return e;
        perturb();
    }
    st.cls("cycles=" + std::to_string(c.cycles.size()));
    st.cls("rebuilds", nbRebuilds); st.cls("executes", nbExecutes);
    if(shapeChanged){ st.cls("move-changed-number-of-leaves"); st.noteNontrivial(hc::hashCase(c0), c0); }
    return "";
}

} // namespace

int main(int argc, char** argv){
    hc::Args a = hc::parseArgs(argc, argv);
    if(a.prop.empty()){ std::cerr << "usage: --prop C13 ...\n"; return 2; }
    const std::string prop = a.prop;
    pbt::GenCfg g; g.dim = Dim; g.real = RealCode; g.cycles = true; g.maxCycles = 4; g.maxNextra = NX; g.autoBlock = true;
    if(a.prop == "C15" || a.prop == "C13" || a.prop == "C07") g.emptySets = true;
    g.variants = (prop == "C19") ? 2 : 1;     // C19: with and without rebuild
#if EXEC == 1
    g.schedules = true; g.executors = 2;
#endif
    static const int hmax[5] = {0, 7, 5, 4, 3};
    g.minH = Periodic ? 2 : 1; g.maxH = int(a.getInt("maxh", hmax[Dim])); g.maxN = int(a.getInt("maxn", 80));
    g_hilbertGeometry = a.getInt("hilbert-geometry", 0) != 0;
    return hc::runMain(a, g, [&](const FmmCase& c){
        std::string r = propRebuild(c, prop);
        if(Hilbert && g_hilbertGeometry && !r.empty() && r.compare(0, 4, "SKIP") != 0) r = "[cross-level] (Hilbert ordering, geometric oracles) " + r;
        return r;
    });
}
