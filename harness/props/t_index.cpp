// Property binary: space-filling-curve index algebra (C11).
// -DDIM=<1..4> -DORD=0 Morton, 1 periodic Morton, 2 Hilbert (DIM must be 3)
// A case = (tree height H, list of queries); query q designates level q % H and cell (q / H) of that level.
#ifndef DIM
#define DIM 3
#endif
#ifndef ORD
#define ORD 0
#endif

#include "tbfglobal.hpp"
#include "utils/tbfutils.hpp"
#include "spacial/tbfspacialconfiguration.hpp"
#include "spacial/tbfmortonspaceindex.hpp"
#include "spacial/tbfhilbertspaceindex.hpp"
#include "core/tbfinteraction.hpp"

#include "../model/refmodel.hpp"
#include "common.hpp"

#include <optional>
#include <sstream>

constexpr int Dim = DIM;
using Real = double;
using Config = TbfSpacialConfiguration<Real, Dim>;
#if ORD == 0
using SI = TbfMortonSpaceIndex<Dim, Config, false>;
constexpr bool Periodic = false; constexpr bool Hilbert = false;
#elif ORD == 1
using SI = TbfMortonSpaceIndex<Dim, Config, true>;
constexpr bool Periodic = true; constexpr bool Hilbert = false;
#else
using SI = TbfHilbertSpaceIndex<Dim, Config, false>;
constexpr bool Periodic = false; constexpr bool Hilbert = true;
#endif

namespace {
using rm::Coord;
bool g_cross = true;     // assert the relations that tie two levels together (Hilbert: known finding, probed separately)

std::string cs(const Coord& c){ std::ostringstream os; os << "("; for(int d = 0 ; d < Dim ; ++d) os << (d ? "," : "") << c[size_t(d)]; os << ")"; return os.str(); }
std::array<long int, Dim> toArr(const Coord& c){ std::array<long int, Dim> a; for(int d = 0 ; d < Dim ; ++d) a[size_t(d)] = c[size_t(d)]; return a; }
Coord fromArr(const std::array<long int, Dim>& a){ Coord c{{0,0,0,0}}; for(int d = 0 ; d < Dim ; ++d) c[size_t(d)] = a[size_t(d)]; return c; }

// duck-typed groups accepted by the block builders
struct FakeGroup {
    std::vector<long> idx;   // sorted, unique
    long getNbCells() const { return long(idx.size()); }
    long getNbLeaves() const { return long(idx.size()); }
    long getCellSpacialIndex(long i) const { return idx[size_t(i)]; }
    long getLeafSpacialIndex(long i) const { return idx[size_t(i)]; }
    long getStartingSpacialIndex() const { return idx.front(); }
    long getEndingSpacialIndex() const { return idx.back(); }
    std::optional<long int> getElementFromSpacialIndex(long q) const {
        auto it = std::lower_bound(idx.begin(), idx.end(), q);
        if(it == idx.end() || *it != q) return std::nullopt;
        return std::optional<long int>(long(it - idx.begin()));
    }
};

struct Entry { long tgt, src, pos, code; bool operator<(const Entry& o) const { return std::tie(tgt, src, pos, code) < std::tie(o.tgt, o.src, o.pos, o.code); } bool operator==(const Entry& o) const { return tgt == o.tgt && src == o.src && pos == o.pos && code == o.code; } };
template <class V> std::vector<Entry> toEntries(const V& v){ std::vector<Entry> e; for(const auto& x : v) e.push_back(Entry{long(x.indexTarget), long(x.indexSrc), long(x.globalTargetPos), long(x.arrayIndexSrc)}); std::sort(e.begin(), e.end()); return e; }
std::string es(const Entry& e){ std::ostringstream os; os << "{target " << e.tgt << ", source " << e.src << ", position " << e.pos << ", code " << e.code << "}"; return os.str(); }
std::string diffEntries(const std::vector<Entry>& got, const std::vector<Entry>& exp){
    size_t i = 0, j = 0;
    while(i < got.size() && j < exp.size()){ if(got[i] == exp[j]){ ++i; ++j; } else if(got[i] < exp[j]) return "unexpected entry " + es(got[i]); else return "missing entry " + es(exp[j]); }
    if(i < got.size()) return "unexpected entry " + es(got[i]);
    if(j < exp.size()) return "missing entry " + es(exp[j]);
    return "";
}

struct Sys {
    Config config; SI sp; int H;
    explicit Sys(int h) : config(h, TbfUtils::make_array<Real, Dim>(1), TbfUtils::make_array<Real, Dim>(0.5)), sp(config), H(h){}
    // index of a cell given by coordinates: definitional for Morton, the library's own mapping for Hilbert (no independent definition exists)
    long indexOf(const Coord& x, int level) const { if(Hilbert) return long(sp.getIndexFromBoxPos(toArr(x))); return rm::morton(Dim, x, level); }
};

std::string checkCodes(){
    // encode/decode of position codes: inverse of each other, equal to the documented base-7 / base-3 layout, over the whole range
    std::string err;
    rm::forOffsets(Dim, -3, 3, [&](const Coord& o){
        if(!err.empty()) return;
        const long code = SI::getInteractionIndexFromRelativePos(toArr(o));
        if(code != rm::transferCode(Dim, o)) err = "transfer code of offset " + cs(o) + " is " + std::to_string(code);
        else if(fromArr(SI::getRelativePosFromInteractionIndex(code)) != o) err = "transfer code " + std::to_string(code) + " does not decode to " + cs(o);
    });
    rm::forOffsets(Dim, -1, 1, [&](const Coord& o){
        if(!err.empty()) return;
        const long code = SI::getNeighborIndexFromRelativePos(toArr(o));
        if(code != rm::neighborCode(Dim, o)) err = "neighbour code of offset " + cs(o) + " is " + std::to_string(code);
        else if(fromArr(SI::getRelativePosFromNeighborIndex(code)) != o) err = "neighbour code " + std::to_string(code) + " does not decode to " + cs(o);
    });
    for(long code = 0 ; code < rm::ipow(7, Dim) && err.empty() ; ++code) if(SI::getInteractionIndexFromRelativePos(SI::getRelativePosFromInteractionIndex(code)) != code) err = "transfer code round trip fails for " + std::to_string(code);
    for(long code = 0 ; code < rm::ipow(3, Dim) && err.empty() ; ++code) if(SI::getNeighborIndexFromRelativePos(SI::getRelativePosFromNeighborIndex(code)) != code) err = "neighbour code round trip fails for " + std::to_string(code);
    if(SI::getNbChildrenPerCell() != (1L << Dim)) err = "getNbChildrenPerCell";
    if(SI::getNbInteractionsPerCell() != rm::ipow(6, Dim) - rm::ipow(3, Dim)) err = "getNbInteractionsPerCell";
    if(SI::getNbNeighborsPerLeaf() != rm::ipow(3, Dim) - 1) err = "getNbNeighborsPerLeaf";
    return err;
}

// was (T, offset) kept by the upper-half filter? (single-cell block call; codes are part of the result)
bool keptUpper(const Sys& s, const Coord& T, int level, long code){
    FakeGroup g; g.idx.push_back(s.indexOf(T, level));
    auto r = s.sp.getNeighborListForBlock(g, level, true, false);
    for(const auto& x : r.first) if(x.arrayIndexSrc == code) return true;
    for(const auto& x : r.second) if(x.arrayIndexSrc == code) return true;
    return false;
}

std::string checkCell(const Sys& s, int level, const Coord& x, hc::Stats& st){
    const long n = 1L << level;
    std::ostringstream os;
    const long idx = long(s.sp.getIndexFromBoxPos(toArr(x)));
    // ---- bijection below the upper bound
    if(idx < 0 || idx >= s.sp.getUpperBound(level)){ os << "index " << idx << " of cell L" << level << cs(x) << " outside [0, upper bound " << s.sp.getUpperBound(level) << ")"; return os.str(); }
    if(!Hilbert && idx != rm::morton(Dim, x, level)){ os << "index of cell L" << level << cs(x) << " is " << idx << ", the Morton interleave is " << rm::morton(Dim, x, level); return os.str(); }
    if(fromArr(s.sp.getBoxPosFromIndex(idx)) != x){ os << "coordinates " << cs(x) << " -> index " << idx << " -> coordinates " << cs(fromArr(s.sp.getBoxPosFromIndex(idx))); return os.str(); }
    // ---- parent / child
    if(level >= 1 && (g_cross || !Hilbert)){
        const long pidx = long(s.sp.getParentIndex(idx));
        const Coord px = rm::shr(x, 1);
        const Coord gotp = fromArr(s.sp.getBoxPosFromIndex(pidx));
        Coord oct{{0,0,0,0}}; for(int d = 0 ; d < Dim ; ++d) oct[size_t(d)] = x[size_t(d)] & 1;
        const long code = s.sp.childPositionFromParent(idx);
        if(gotp != px){ os << "[cross-level] parent of cell L" << level << cs(x) << " (index " << idx << ") is index " << pidx << " = cell " << cs(gotp) << ", the containing cell is " << cs(px); return os.str(); }
        if(code < 0 || code >= (1L << Dim)){ os << "[cross-level] child position code out of range"; return os.str(); }
        const Coord dec = Hilbert ? fromArr(s.sp.getBoxPosFromIndex(code)) : rm::childFromCode(Dim, code);
        if(dec != oct){ os << "[cross-level] child position code " << code << " of cell L" << level << cs(x) << " decodes to octant " << cs(dec) << ", true octant " << cs(oct); return os.str(); }
        if(long(s.sp.getChildIndexFromParent(pidx, code)) != idx){ os << "[cross-level] getChildIndexFromParent(parent, code) does not give the child back"; return os.str(); }
    }
    // ---- interaction list = children of the parent's neighbours that are not adjacent (clipped / wrapped)
    {
        std::vector<long> exp;
        bool skipHilbertCross = Hilbert && !g_cross;    // the Hilbert list builder goes through the parent index
        for(const rm::Pair& p : rm::transferList(Dim, level, x, Periodic)) exp.push_back(s.indexOf(p.src, level));
        if(!Periodic && level < 2) exp.clear();
        std::sort(exp.begin(), exp.end());
        auto got = s.sp.getInteractionListForIndex(idx, level);
        std::vector<long> g(got.begin(), got.end()); std::sort(g.begin(), g.end());
        if(g != exp && !skipHilbertCross){
            os << (Hilbert ? "[cross-level] " : "") << "interaction list of cell L" << level << cs(x) << " has " << g.size() << " entries, the definition gives " << exp.size();
            for(size_t i = 0 ; i < std::min(g.size(), exp.size()) ; ++i) if(g[i] != exp[i]){ os << " (first difference: index " << g[i] << " vs " << exp[i] << ")"; break; }
            return os.str();
        }
        if(!exp.empty()) st.cls(exp.size() == size_t(rm::ipow(6, Dim) - rm::ipow(3, Dim)) ? "full-interaction-list" : "clipped-interaction-list");
    }
    // ---- neighbour list
    {
        std::vector<long> exp;
        const auto model = rm::neighborList(Dim, level, x, Periodic);
        for(const rm::Pair& p : model) exp.push_back(s.indexOf(p.src, level));
        std::sort(exp.begin(), exp.end());
        auto got = s.sp.getNeighborListForIndex(idx, level, false);
        std::vector<long> g(got.begin(), got.end()); std::sort(g.begin(), g.end());
        if(g != exp){ os << "neighbour list of cell L" << level << cs(x) << " has " << g.size() << " entries, the definition gives " << exp.size(); return os.str(); }
        // upper-half filter: exactly one direction of every adjacent pair is kept
        auto gu = s.sp.getNeighborListForIndex(idx, level, true);
        long keptCount = 0;
        for(const rm::Pair& p : model){
            Coord neg{{0,0,0,0}}; for(int d = 0 ; d < Dim ; ++d) neg[size_t(d)] = -p.off[size_t(d)];
            const bool a = keptUpper(s, x, level, rm::neighborCode(Dim, p.off));
            const bool b = keptUpper(s, p.src, level, rm::neighborCode(Dim, neg));
            if(a == b){ os << "upper-half filter keeps " << (a ? "both directions" : "neither direction") << " of the adjacent pair L" << level << cs(x) << " / " << cs(p.src) << " (offset " << cs(p.off) << ")"; return os.str(); }
            keptCount += a ? 1 : 0;
        }
        if(long(gu.size()) != keptCount){ os << "getNeighborListForIndex(upperExclusion) returns " << gu.size() << " entries, the block builder keeps " << keptCount; return os.str(); }
        st.cls(exp.size() == size_t(rm::ipow(3, Dim) - 1) ? "full-neighbour-list" : "clipped-neighbour-list");
    }
    (void)n;
    return "";
}

std::string checkGroup(const Sys& s, int level, const std::vector<Coord>& cells, hc::Stats& st){
    if(cells.empty()) return "";
    std::map<long, Coord> byIdx;
    for(const Coord& x : cells) byIdx[s.indexOf(x, level)] = x;
    FakeGroup g; for(const auto& kv : byIdx) g.idx.push_back(kv.first);
    const bool skipCross = Hilbert && !g_cross;
    for(int selfIncl = 0 ; selfIncl < 2 ; ++selfIncl){
        // transfer lists
        if(!skipCross){
            std::vector<Entry> expIn, expOut;
            long pos = 0;
            for(const auto& kv : byIdx){
                if(Periodic || level >= 2) for(const rm::Pair& p : rm::transferList(Dim, level, kv.second, Periodic)){
                    const long sidx = s.indexOf(p.src, level);
                    const Entry e{kv.first, sidx, pos, rm::transferCode(Dim, p.off)};
                    if(sidx >= g.idx.front() && sidx <= g.idx.back()){ if(!selfIncl || byIdx.count(sidx)) expIn.push_back(e); }
                    else expOut.push_back(e);
                }
                ++pos;
            }
            std::sort(expIn.begin(), expIn.end()); std::sort(expOut.begin(), expOut.end());
            auto r = s.sp.getInteractionListForBlock(g, level, selfIncl != 0);
            std::string d = diffEntries(toEntries(r.first), expIn);
            if(!d.empty()) return "in-group part of the interaction list of a group of " + std::to_string(g.idx.size()) + " cells at level " + std::to_string(level) + " (self-inclusion test " + std::to_string(selfIncl) + "): " + d;
            d = diffEntries(toEntries(r.second), expOut);
            if(!d.empty()) return "out-of-group part of the interaction list of a group of " + std::to_string(g.idx.size()) + " cells at level " + std::to_string(level) + ": " + d;
        }
        // neighbour lists
        for(int upper = 0 ; upper < 2 ; ++upper){
            std::vector<Entry> expIn, expOut;
            long pos = 0;
            for(const auto& kv : byIdx){
                for(const rm::Pair& p : rm::neighborList(Dim, level, kv.second, Periodic)){
                    const long code = rm::neighborCode(Dim, p.off);
                    if(upper && !keptUpper(s, kv.second, level, code)) continue;
                    const long sidx = s.indexOf(p.src, level);
                    const Entry e{kv.first, sidx, pos, code};
                    if(sidx >= g.idx.front() && sidx <= g.idx.back()){ if(!selfIncl || byIdx.count(sidx)) expIn.push_back(e); }
                    else expOut.push_back(e);
                }
                ++pos;
            }
            std::sort(expIn.begin(), expIn.end()); std::sort(expOut.begin(), expOut.end());
            auto r = s.sp.getNeighborListForBlock(g, level, upper != 0, selfIncl != 0);
            std::string d = diffEntries(toEntries(r.first), expIn);
            if(!d.empty()) return "in-group part of the neighbour list (upper filter " + std::to_string(upper) + ", self-inclusion test " + std::to_string(selfIncl) + ") at level " + std::to_string(level) + ": " + d;
            d = diffEntries(toEntries(r.second), expOut);
            if(!d.empty()) return "out-of-group part of the neighbour list (upper filter " + std::to_string(upper) + ") at level " + std::to_string(level) + ": " + d;
        }
    }
    {
        std::vector<Entry> exp; long pos = 0;
        for(const auto& kv : byIdx){ exp.push_back(Entry{kv.first, kv.first, pos, rm::neighborCode(Dim, Coord{{0,0,0,0}})}); ++pos; }
        std::sort(exp.begin(), exp.end());
        std::string d = diffEntries(toEntries(s.sp.getSelfListForBlock(g)), exp);
        if(!d.empty()) return "self list: " + d;
    }
    st.cls("groups-checked");
    return "";
}

std::string propIndex(const FmmCase& c){
    if(c.dim != Dim) return "SKIP wrong dimension";
    hc::Stats& st = hc::stats();
    const int H = c.height;
    if(H < 1 || Dim * (H - 1) > 62) return "SKIP height";
    static bool codesDone = false;
    if(!codesDone){ codesDone = true; std::string e = checkCodes(); if(!e.empty()) return "position codes: " + e; }
    Sys s(H);
    std::map<int, std::vector<Coord>> perLevel;
    bool interior = false, boundary = false;
    for(long q : c.queries){
        if(q < 0) q = -q;
        const int level = int(q % H);
        const long bits = Dim * level;
        long raw = q / H;
        if(bits < 62) raw %= (1L << bits);
        const Coord x = rm::mortonInv(Dim, raw, level);
        std::string e = checkCell(s, level, x, st);
        if(!e.empty()) return e;
        perLevel[level].push_back(x);
        bool b = false; for(int d = 0 ; d < Dim ; ++d) if(x[size_t(d)] == 0 || x[size_t(d)] == (1L << level) - 1) b = true;
        if(level >= 2){ if(b) boundary = true; else interior = true; }
        st.cls("cells-checked");
    }
    for(const auto& kv : perLevel){
        std::string e = checkGroup(s, kv.first, kv.second, st);
        if(!e.empty()) return e;
    }
    st.cls("H=" + std::to_string(H));
    if(interior || boundary) st.noteNontrivial(hc::hashCase(c), c);
    if(interior) st.cls("interior-cell-level>=2"); if(boundary) st.cls("boundary-cell-level>=2");
    return "";
}

} // namespace

int main(int argc, char** argv){
    hc::Args a = hc::parseArgs(argc, argv);
    if(a.prop.empty()){ std::cerr << "usage: --prop C11 ...\n"; return 2; }
    g_cross = a.getInt("cross", Hilbert ? 0 : 1) != 0;
    static const int hExh[5] = {0, 7, 5, 4, 3};
    static const int hMax[5] = {0, 31, 31, 21, 16};   // Dim 1: heights >= 33 are the known finding F-DEEP-LEVEL (probed, not generated)
    if(a.mode == "exhaustive" && a.replay.empty()){
        // every cell of every level up to a bounded height, in chunks that are valid replay cases
        hc::stats().outPath = a.out;
        const int H = int(a.getInt("exh", hExh[Dim]));
        long nb = 0;
        for(int level = 0 ; level < H ; ++level){
            const long cells = 1L << (Dim * level);
            for(long start = 0 ; start < cells ; start += 64){
                FmmCase c; c.dim = Dim; c.height = H; c.variant = 1;   // variant 1: queries are final (not widened)
                for(long i = start ; i < std::min(cells, start + 64) ; ++i) c.queries.push_back(i * H + level);
                if(!a.cur.empty()) vj::writeFile(a.cur, c.toJson());
                hc::stats().evaluations += 1;
                const std::string r = propIndex(c);
                if(!r.empty()){
                    // shrink to the single failing cell
                    FmmCase one = c;
                    for(long q : c.queries){ one.queries.assign(1, q); if(!propIndex(one).empty()) break; }
                    if(!a.fail.empty()) vj::writeFile(a.fail, one.toJson());
                    hc::stats().dump();
                    std::cout << "FAIL " << r << std::endl; return 1;
                }
                nb += long(c.queries.size());
            }
        }
        hc::stats().cls("exhaustive-cells", nb);
        hc::stats().cls("exhaustive-height", H);
        hc::stats().dump();
        std::cout << "HELD exhaustive cells=" << nb << std::endl;
        return 0;
    }
    pbt::GenCfg g; g.dim = Dim; g.queries = true;
    g.minH = 1; g.maxH = int(a.getInt("maxh", Hilbert ? 12 : hMax[Dim]));
    g.maxN = 1; g.genericBoxes = false; g.autoBlock = false;
    return hc::runMain(a, g, [&](const FmmCase& c){
        // widen the generated queries to the full index range of deep levels
        FmmCase w = c;
        if(c.variant == 0) for(size_t i = 0 ; i < w.queries.size() ; ++i){ const uint64_t h = gf::splitmix(uint64_t(w.queries[i]) + c.salt * 7919u); w.queries[i] = long(h >> 2); }
        return propIndex(w);
    });
}
