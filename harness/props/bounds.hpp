// Accuracy bounds of the numerical kernels: 8 x the maximum observed in the calibration campaigns (see DESIGN.md, C04/C05),
// frozen. Errors are normalised by the sum of absolute pair contributions (potential: sum |q_j|/r, force: sum |q_i q_j|/r^2).
#ifndef VERIF_BOUNDS_HPP
#define VERIF_BOUNDS_HPP
namespace nb {
struct Row { int kernel, order, real, periodic; double pot, force; };
static const Row table[] = {
#include "bounds_table.inc"
};
inline const Row* find(int kernel, int order, int real, int periodic){
    for(const Row& r : table) if(r.kernel == kernel && r.order == order && r.real == real && r.periodic == periodic) return &r;
    return nullptr;
}
// convergence relation between the low and the high order of a pair binary (rotation 4 -> 12, uniform 3 -> 8):
// measured over 300 cases: rotation median 5.6e-3 (max 0.55 potential, 0.65 force); uniform median 3.1e-5 (max 1.9e-3 / 5.9e-3)
inline double convHard(int kernel){ return kernel == 1 ? 4.0 : 0.25; }      // per case
inline double convMedian(int kernel){ return kernel == 1 ? 0.1 : 0.005; }   // median over a campaign (>= 25 eligible cases)
// order chain of the uniform kernel (orders 3..8 on the same case): error(k+1)/error(k). Calibration (8 seeds x 80 cases, 2026-09-27):
// medians 0.07..0.22 (potential), 0.16..0.27 (force) for every pair of adjacent orders; per-case maxima 23 (potential: order 3 can be
// accidentally accurate), 3.2 (force)
inline double chainHard(){ return 50.0; }     // per case, force error only: ~15 x the largest force ratio seen (potential ratios reach 330 by accident)
inline double chainMedian(){ return 0.5; }    // median over a campaign (>= 15 eligible cases): ~2 x the largest median seen
inline double boundPot(int kernel, int order, int real, bool periodic){ const Row* r = find(kernel, order, real, periodic ? 1 : 0); return r ? r->pot : 1e300; }
inline double boundForce(int kernel, int order, int real, bool periodic){ const Row* r = find(kernel, order, real, periodic ? 1 : 0); return r ? r->force : 1e300; }
}
#endif
