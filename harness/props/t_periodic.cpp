// Property binary: periodic mode (C10). Periodic Morton ordering + the periodic top tree, run with the
// documented four-call sequence. -DRT=0 sequential, -DRT=1 OpenMP under mock-runtime schedules.
// -DTSMP=1 target/source trees with TbfAlgorithmPeriodicTopTreeTsm.
#ifndef DIM
#define DIM 3
#endif
#ifndef RT
#define RT 0
#endif
#ifndef TSMP
#define TSMP 0
#endif
#ifndef NX
#define NX 0
#endif

#include "fmmharness.hpp"
#include "core/tbftreetsm.hpp"
#include "algorithms/sequential/tbfalgorithmtsm.hpp"
#include "algorithms/periodic/tbfalgorithmperiodictoptree.hpp"
#include "algorithms/periodic/tbfalgorithmperiodictoptreetsm.hpp"
#include "../runtimes/sched.hpp"
#if RT == 1
#include "algorithms/openmp/tbfopenmpalgorithm.hpp"
#include "algorithms/openmp/tbfopenmpalgorithmtsm.hpp"
#endif

using Real = double;
constexpr int Dim = DIM;
constexpr long NbData = Dim + NX;
using Config = TbfSpacialConfiguration<Real, Dim>;
using SI = TbfMortonSpaceIndex<Dim, Config, true>;
using Kernel = probe::GfKernel<Real, SI>;
#if TSMP
using Tree = TbfTreeTsm<Real, Real, NbData, uint64_t, gf::NEVAL + 1, gf::Val, gf::Val, SI>;
using TopAlgo = TbfAlgorithmPeriodicTopTreeTsm<Real, Kernel, gf::Val, gf::Val, SI>;
#if RT == 1
using Algo = TbfOpenmpAlgorithmTsm<Real, Kernel, SI>;
#else
using Algo = TbfAlgorithmTsm<Real, Kernel, SI>;
#endif
#else
using Tree = TbfTree<Real, Real, NbData, uint64_t, gf::NEVAL + 1, gf::Val, gf::Val, SI>;
using TopAlgo = TbfAlgorithmPeriodicTopTree<Real, Kernel, gf::Val, gf::Val, SI>;
#if RT == 1
using Algo = TbfOpenmpAlgorithm<Real, Kernel, SI>;
#else
using Algo = TbfAlgorithm<Real, Kernel, SI>;
#endif
#endif

namespace {
using rm::Coord;
int currentTask(){ return msched::global().currentTask; }

std::string propPeriodic(const FmmCase& c, const std::string& prop){
    if(c.dim != Dim) return "SKIP wrong dimension";
    if(c.extraLevels < -1) return "SKIP not a periodic case";
    if(bool(c.tsm) != bool(TSMP)) return "SKIP tsm mismatch";
    hc::Stats& st = hc::stats();
    rm::ModelTree ms, mtg; ms.buildFrom(c, c.pos);
    if(TSMP) mtg.buildFrom(c, c.tpos); else mtg = ms;
    if(!ms.allInBox || !ms.allSound || !mtg.allInBox || !mtg.allSound) return "SKIP generator soundness";
    if(c.pos.empty() || (TSMP && c.tpos.empty())) return "SKIP empty";
    const int H = c.height;
    if(H < 2) return "SKIP periodic needs height >= 2";
    const Config config = fh::makeConfig<Real, Dim>(c);
    auto inS = fh::makeInput<Real, Real, NbData>(c, c.pos, c.extra, Dim, c.nextra);
#if TSMP
    auto inT = fh::makeInput<Real, Real, NbData>(c, c.tpos, c.textra, Dim, c.nextra);
#endif

    std::unique_ptr<Tree> tree;
    {
        fh::ScopedBlockEnv env(c.blockSize == -1 ? c.envBlock : 0);
#if TSMP
        if(c.blockSize == -1) tree.reset(new Tree(config, inS.data, inT.data)); else tree.reset(new Tree(config, inS.data, inT.data, c.blockSize, c.oneGroupPerParent != 0));
#else
        if(c.blockSize == -1) tree.reset(new Tree(config, inS.data)); else tree.reset(new Tree(config, inS.data, c.blockSize, c.oneGroupPerParent != 0));
#endif
    }
    probe::Ctx ctx(c.salt);
    ctx.dim = Dim; ctx.height = H; ctx.base = H - 1; ctx.periodic = true; ctx.tagSrc = 0; ctx.tagTgt = TSMP ? 1 : 0;
    ctx.leafOf[0] = &ms.leafOf; ctx.rows[0] = &inS.rows;
    const SI shifterIndex(config);
    ctx.shifterIndex = &shifterIndex;
    for(int d = 0 ; d < Dim ; ++d) ctx.boxWidths[d] = double(config.getBoxWidths()[size_t(d)]);
#if TSMP
    ctx.leafOf[1] = &mtg.leafOf; ctx.rows[1] = &inT.rows;
    tree->applyToAllCellsSource([&](const long level, auto&& header, auto&& m, auto&&){ ctx.multAddr[&(m->get())] = probe::CellId{int(level), fh::hcoord<decltype(header), Dim>(header)}; });
    tree->applyToAllCellsTarget([&](const long level, auto&& header, auto&&, auto&& l){ ctx.localAddr[&(l->get())] = probe::CellId{int(level), fh::hcoord<decltype(header), Dim>(header)}; });
#else
    fh::registerCells<Dim>(*tree, ctx);
#endif
    probe::Ctx ctxTop(c.salt);
    ctxTop.dim = Dim; ctxTop.height = H; ctxTop.base = H - 1 + c.extraLevels + 3; ctxTop.periodic = true; ctxTop.topTree = true; ctxTop.tagSrc = 0; ctxTop.tagTgt = ctx.tagTgt;
    ctxTop.multAddr = ctx.multAddr; ctxTop.localAddr = ctx.localAddr;

    msched::Scheduler& S = msched::global();
    S.reset(c.threads, c.sched);
#if RT == 1
    ctx.currentTaskFn = &currentTask;
#endif
    const long lastWorkingLevel = TbfDefaultLastLevelPeriodic;
    if(RT == 1 && c.threadsCtor > 0) S.reset(c.threadsCtor, c.sched);
    Algo algorithm(config, Kernel(&ctx), lastWorkingLevel);
    S.reset(c.threads, c.sched);
    TopAlgo topAlgorithm(config, Kernel(&ctxTop), long(c.extraLevels));

    std::string stagedErr;
    if(c.history.empty()){
        // the documented sequence
        algorithm.execute(*tree, TbfAlgorithmUtils::TbfBottomToTopStages);
        topAlgorithm.execute(*tree);
        algorithm.execute(*tree, TbfAlgorithmUtils::TbfTransferStages);
        algorithm.execute(*tree, TbfAlgorithmUtils::TbfTopToBottomStages);
    }
    else{
        // C12 on the periodic pair of executors: an ordered partition of the operator flags into calls; for each flag set F the upward
        // part on the real tree, then the top tree with F, then the rest on the real tree (every such sequence respects the data flow:
        // real M2M before top M2M, top L2L before real L2L). Per call: only requested operators may be applied.
        for(int F : c.history){
            const int up = F & (TbfAlgorithmUtils::TbfP2M | TbfAlgorithmUtils::TbfM2M), down = F & ~up;
            if(up){ const size_t from = ctx.log.size(); algorithm.execute(*tree, up); if(stagedErr.empty()) stagedErr = fh::checkOpsOfCall(ctx.log, from, up, 1, Dim); }
            {
                const size_t from = ctxTop.log.size();
                topAlgorithm.execute(*tree, F);
                if(stagedErr.empty()){ stagedErr = fh::checkOpsOfCall(ctxTop.log, from, F, -1000, Dim); if(!stagedErr.empty()) stagedErr = "top tree: " + stagedErr; }
            }
            if(down){ const size_t from = ctx.log.size(); algorithm.execute(*tree, down); if(stagedErr.empty()) stagedErr = fh::checkOpsOfCall(ctx.log, from, down, 1, Dim); }
        }
    }
    if(!stagedErr.empty()) return stagedErr;

    const auto interval = topAlgorithm.getRepetitionsIntervals();
    const long lo = interval.first[0], hi = interval.second[0];
    for(int d = 0 ; d < Dim ; ++d) if(interval.first[size_t(d)] != lo || interval.second[size_t(d)] != hi) return "repetition interval not cubic";
    if(topAlgorithm.getNbRepetitionsPerDim() != hi - lo + 1) return "getNbRepetitionsPerDim() = " + std::to_string(topAlgorithm.getNbRepetitionsPerDim()) + " but the reported interval [" + std::to_string(lo) + "," + std::to_string(hi) + "] holds " + std::to_string(hi - lo + 1) + " boxes";
    long tot = 1; for(int d = 0 ; d < Dim ; ++d) tot *= (hi - lo + 1);
    if(topAlgorithm.getNbTotalRepetitions() != tot) return "getNbTotalRepetitions() inconsistent with the interval";

    rm::Expect ex(ctx.P, ms, true, 0);
    // model self-check: the real periodic tree alone (levels >= 1 + neighbours) covers exactly the images [-1,1]^Dim
    {
        const Coord T = mtg.leaves.begin()->first;
        gf::Val viaLists = ex.farAtLeaf(T, 1);
        gf::addPlain(viaLists, ex.nearField(T, -1, true));
        const gf::Val direct = ex.allImages(T, -1, 1, -1);
        if(viaLists != direct) return "MODEL-ERROR periodic partition identity violated by the reference model";
    }

    std::string err;
    std::vector<char> seen(mtg.leafOf.size(), 0);
    std::map<Coord, gf::Val> perLeaf;
    auto checkLeaf = [&](auto&& header, const long int* idx, auto&& /*data*/, auto&& rhs){
        if(!err.empty()) return;
        for(long i = 0 ; i < header.nbParticles ; ++i){
            const long id = idx[i];
            if(id < 0 || id >= long(seen.size()) || seen[size_t(id)]){ err = "particle index invalid or stored twice"; return; }
            seen[size_t(id)] = 1;
            const Coord T = mtg.leafOf[size_t(id)];
            auto it = perLeaf.find(T);
            if(it == perLeaf.end()) it = perLeaf.emplace(T, ex.allImages(T, lo, hi, -1)).first;
            gf::Val e = it->second;
            if(!TSMP){ for(int k = 0 ; k < gf::NEVAL ; ++k) e.v[k] = gf::sub(e.v[k], ctx.P.weight(k, id, 0)); e.cnt -= 1; }
            gf::Val got; for(int k = 0 ; k < gf::NEVAL ; ++k) got.v[k] = rhs[size_t(k)][i]; got.cnt = rhs[gf::NEVAL][i];
            if(got != e){
                std::ostringstream os; os << "particle " << id << " in leaf " << fh::coordStr(T, Dim) << " accumulated " << fh::valStr(got) << " expected " << fh::valStr(e)
                                          << " = one contribution from every image in [" << lo << "," << hi << "]^" << Dim << " (contributions counted " << got.cnt << ", expected " << e.cnt << ")";
                err = os.str(); return;
            }
        }
    };
#if TSMP
    tree->applyToAllLeavesTarget(checkLeaf);
#else
    tree->applyToAllLeaves(checkLeaf);
#endif
    if(err.empty()) for(size_t i = 0 ; i < seen.size() ; ++i) if(!seen[i]){ err = "particle missing from the tree"; break; }
    if(!err.empty()) return (RT == 1 ? std::string("openmp: ") : std::string("")) + err;

    // real-tree multipoles (levels >= 1) equal the model
    {
        auto checkCell = [&](const long level, auto&& header, auto&& m, auto&& /*l*/){
            if(!err.empty() || level < 1) return;
            if constexpr(std::is_same<typename std::decay<decltype(m)>::type, std::optional<std::reference_wrapper<gf::Val>>>::value){
                const Coord cc = fh::hcoord<decltype(header), Dim>(header);
                if(m && m->get() != ex.multipole(int(level), cc)) err = "multipole of cell L" + std::to_string(level) + fh::coordStr(cc, Dim) + " differs from the model";
            }
        };
#if TSMP
        tree->applyToAllCellsSource(checkCell);
#else
        tree->applyToAllCells(checkCell);
#endif
        if(!err.empty()) return err;
    }
    // arguments (C02 part of the periodic clause): real levels and virtual levels
    if(!ctx.errors.empty()) return "arguments: " + ctx.errors.front();
    if(!ctxTop.errors.empty()) return "arguments (top tree): " + ctxTop.errors.front();
    // the real-tree interaction multiset equals the periodic definitions
#if !TSMP
    {
        const auto got = fh::normalizedLog(ctx, ms, true);
        const auto exp = fh::expectedLog(ms, true, 1, 63);
        const std::string d = fh::diffLogs(got, exp, Dim);
        if(!d.empty()) return "interactions: " + d;
    }
#endif
    // every top-tree call has at least one source and the level argument is a virtual level
    for(const auto& e : ctxTop.log){
        if(e.level < 3 || e.level > c.extraLevels + 3) return std::string("top tree called ") + probe::opName(e.op) + " with level " + std::to_string(e.level) + " outside the virtual levels [3," + std::to_string(c.extraLevels + 3) + "]";
    }

    st.cls("extra=" + std::to_string(c.extraLevels));
    st.cls("H=" + std::to_string(H));
    bool boundary = false;
    for(const auto& kv : mtg.leaves) for(int d = 0 ; d < Dim ; ++d) if(kv.first[size_t(d)] == 0 || kv.first[size_t(d)] == mtg.n - 1) boundary = true;
    if(boundary) st.cls("particle-in-boundary-leaf");
    bool nonCubic = false; for(int d = 1 ; d < Dim ; ++d) if(c.width[size_t(d)] != c.width[0]) nonCubic = true;
    if(nonCubic) st.cls("per-dimension-widths");
#if RT == 1
    st.cls(std::string("strategy=") + std::to_string(c.sched.empty() ? 0 : int(c.sched[0] % 8)));
#endif
    if(c.extraLevels >= 1 && boundary) st.noteNontrivial(hc::hashCase(c), c);
    (void)prop;
    return "";
}

pbt::GenCfg cfgFor(const std::string& prop, const hc::Args& a){
    pbt::GenCfg g;
    g.dim = Dim; g.real = 0; g.tsm = TSMP; g.periodic = true;
    static const int hmax[5] = {0, 7, 5, 4, 3};
    g.maxH = int(a.getInt("maxh", hmax[Dim]));
    g.maxN = int(a.getInt("maxn", 100));
    g.maxExtraLevels = int(a.getInt("maxextra", 5));
    g.maxNextra = NX;
#if RT == 1
    g.schedules = true; g.executors = 2;
#endif
    if(prop == "C12") g.histories = true;
    if(prop == "C10"){ g.histories = true; g.historyOneIn = 4; }
    return g;
}

} // namespace

#ifdef FUZZ_TARGET
#include "../model/bytes.hpp"
extern "C" int LLVMFuzzerTestOneInput(const uint8_t* data, size_t size){
    static const std::string prop = getenv("VERIF_FUZZ_PROP") ? getenv("VERIF_FUZZ_PROP") : "C10";
    static const int hmaxF[5] = {0, 6, 4, 3, 3};
    const FmmCase c = fz::decode(data, size, Dim, hmaxF[Dim], TSMP != 0, true);
    return hc::fuzzOne(c, [&](const FmmCase& x){ return propPeriodic(x, prop); });
}
#else
int main(int argc, char** argv){
    hc::Args a = hc::parseArgs(argc, argv);
    if(a.prop.empty()){ std::cerr << "usage: --prop Cxx ...\n"; return 2; }
    const std::string prop = a.prop;
    return hc::runMain(a, cfgFor(prop, a), [&](const FmmCase& c){ return propPeriodic(c, prop); });
}
#endif
