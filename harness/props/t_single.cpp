// Property binary: single tree + sequential executor + probe kernel.
// Compile-time menu: -DDIM=<1..4> -DNX=<extra data values> -DREALT=<double|float>
// Serves C01 C02 C06 C07 C08 C12 C16 C17 (sequential parts).
#ifndef DIM
#define DIM 3
#endif
#ifndef NX
#define NX 1
#endif
#ifndef REALT
#define REALT double
#endif
#ifndef DATAT
#define DATAT REALT
#endif

#include "fmmharness.hpp"

using Real = REALT;
using DataT = DATAT;
constexpr int Dim = DIM;
constexpr long NbData = Dim + NX;
constexpr int RealCode = std::is_same<Real, float>::value ? 1 : 0;

using Config = TbfSpacialConfiguration<Real, Dim>;
using SI = TbfMortonSpaceIndex<Dim, Config, false>;
using Tree = TbfTree<Real, DataT, NbData, uint64_t, gf::NEVAL + 1, gf::Val, gf::Val, SI>;
using Kernel = probe::GfKernel<Real, SI>;
using Algo = TbfAlgorithm<Real, Kernel, SI>;

namespace {

using rm::Coord;

struct Built {
    rm::ModelTree mt;
    fh::ParticleInput<DataT, NbData> in;
    std::unique_ptr<Tree> tree;
    long blockSizeUsed = 0;
    long nbGroups = 0;
};

std::string build(const FmmCase& c, long blockSize, long envBlock, int ogpp, Built& b){
    b.mt = rm::ModelTree();
    b.mt.buildFrom(c, c.pos);
    if(!b.mt.allInBox) return "SKIP position outside the box (generator)";
    if(!b.mt.allSound) return "SKIP ambiguous leaf (generator)";
    b.in = fh::makeInput<Real, DataT, NbData>(c, c.pos, c.extra, Dim, c.nextra);
    const Config config = fh::makeConfig<Real, Dim>(c);
    {
        fh::ScopedBlockEnv env(blockSize == -1 ? envBlock : 0);
        if(blockSize == -1) b.tree.reset(new Tree(config, b.in.data));
        else b.tree.reset(new Tree(config, b.in.data, blockSize, ogpp != 0));
    }
    b.blockSizeUsed = b.tree->getNbElementsPerGroup();
    return "";
}

int flagsAll(){ return 63; }

// Runs the (possibly staged) execution and evaluates the oracles selected by `prop`.
std::string propSingle(const FmmCase& c, const std::string& prop){
    if(c.dim != Dim) return "SKIP wrong dimension";
    if(c.real != RealCode) return "SKIP wrong coordinate type";
    hc::Stats& st = hc::stats();
    Built b;
    {
        std::string s = build(c, c.blockSize, c.envBlock, c.oneGroupPerParent, b);
        if(!s.empty()) return s;
    }
    const int H = c.height;
    const int lstop = (c.lstop == -100) ? 2 : std::max(0, c.lstop);
    const bool ogpp = (c.blockSize == -1) ? false : (c.oneGroupPerParent != 0);

    const bool wantStruct = (prop == "C07");
    const bool wantConstr = (prop == "C06");
    const bool wantValues = (prop == "C01" || prop == "C12");
    const bool wantLog = (prop == "C01" || prop == "C12");
    const bool wantArgs = (prop == "C02");

    // C07 / C06 before execution
    {
        std::string e = fh::checkStructure<Dim>(*b.tree, b.mt, b.blockSizeUsed, ogpp, &b.nbGroups);
        if(!e.empty()){ if(wantStruct) return "structure: " + e; st.cls("other-oracle:structure"); }
        e = fh::checkConstruction<Dim>(*b.tree, b.mt, b.in.rows, true);
        if(!e.empty()){ if(wantConstr) return "construction: " + e; st.cls("other-oracle:construction"); }
    }
    const std::vector<unsigned char> symbBefore = fh::symbolicSnapshot(*b.tree);

    probe::Ctx ctx(c.salt);
    ctx.dim = Dim; ctx.height = H; ctx.base = H - 1; ctx.periodic = false;
    ctx.leafOf[0] = &b.mt.leafOf; ctx.rows[0] = &b.in.rows;
    fh::registerCells<Dim>(*b.tree, ctx);

    const Config config = fh::makeConfig<Real, Dim>(c);
    std::unique_ptr<Algo> algo;
    if(c.lstop == -100) algo.reset(new Algo(config, Kernel(&ctx)));
    else algo.reset(new Algo(config, Kernel(&ctx), long(c.lstop)));

    rm::Expect ex(ctx.P, b.mt, false, 0);

    std::vector<int> calls = c.history;
    if(calls.empty()) calls.push_back(flagsAll());
    int done = 0;
    for(size_t ic = 0 ; ic < calls.size() ; ++ic){
        const int fl = calls[ic];
        const size_t logBefore = ctx.log.size();
        const auto multBefore = fh::valueSnapshot(*b.tree, true, false, false);
        const auto localBefore = fh::valueSnapshot(*b.tree, false, true, false);
        const auto rhsBefore = fh::valueSnapshot(*b.tree, false, false, true);
        algo->execute(*b.tree, fl);
        done |= fl;
        if(prop == "C12"){
            // only the requested operators ran, none above the working level, and only their outputs changed
            for(size_t i = logBefore ; i < ctx.log.size() ; ++i){
                const auto& e = ctx.log[i];
                int bit = 0;
                switch(e.op){ case probe::OpP2M: bit = 2; break; case probe::OpM2M: bit = 4; break; case probe::OpM2L: bit = 8; break;
                              case probe::OpL2L: bit = 16; break; case probe::OpL2P: bit = 32; break; default: bit = 1; }
                if(!(fl & bit)) return "flags " + std::to_string(fl) + " triggered operator " + probe::opName(e.op);
                if(e.op == probe::OpM2M || e.op == probe::OpM2L || e.op == probe::OpL2L) if(e.level < lstop) return std::string("operator ") + probe::opName(e.op) + " applied at level " + std::to_string(e.level) + " above the working level " + std::to_string(lstop);
            }
            const bool multMay = fl & (2 | 4), localMay = fl & (8 | 16), rhsMay = fl & (32 | 1);
            if(!multMay && multBefore != fh::valueSnapshot(*b.tree, true, false, false)) return "flags " + std::to_string(fl) + " modified multipoles";
            if(!localMay && localBefore != fh::valueSnapshot(*b.tree, false, true, false)) return "flags " + std::to_string(fl) + " modified locals";
            if(!rhsMay && rhsBefore != fh::valueSnapshot(*b.tree, false, false, true)) return "flags " + std::to_string(fl) + " modified particle results";
        }
    }
    if(fh::symbolicSnapshot(*b.tree) != symbBefore){
        if(wantConstr) return "execution modified symbolic data (headers, indices or particle data)";
        st.cls("other-oracle:symbolic-changed");
    }

    // ---- value oracle
    const bool farDone = (done & 62) == 62, nearDone = (done & 1) != 0;
    std::string valueErr, cellErr, logErr;
    long nbChecked = 0;
    {
        std::map<Coord, gf::Val> perLeaf;
        valueErr = fh::checkParticleValues<Dim>(*b.tree, b.mt, [&](const Coord& T, long id){
            auto it = perLeaf.find(T);
            if(it == perLeaf.end()){
                gf::Val v = gf::zero();
                if(farDone && H > lstop) gf::addPlain(v, ex.local(H - 1, T, lstop));
                if(nearDone) gf::addPlain(v, ex.nearField(T, -1));
                it = perLeaf.emplace(T, v).first;
            }
            gf::Val v = it->second;
            if(nearDone){ for(int k = 0 ; k < gf::NEVAL ; ++k) v.v[k] = gf::sub(v.v[k], ctx.P.weight(k, id, 0)); v.cnt -= 1; }
            return v;
        }, nbChecked);
        // meta-check of the model (partition identity of the FMM): with working level <= 2 every other particle exactly once
        if(valueErr.empty() && farDone && nearDone && lstop <= 2 && !b.mt.leaves.empty()){
            const Coord T = b.mt.leaves.begin()->first; const long id = b.mt.leaves.begin()->second.front();
            gf::Val direct = ex.allSources(T, Coord{{0,0,0,0}}, id);
            gf::Val viaLists = gf::zero();
            if(H > lstop) gf::addPlain(viaLists, ex.local(H - 1, T, lstop));
            gf::addPlain(viaLists, ex.nearField(T, id));
            if(direct != viaLists) return "MODEL-ERROR partition identity violated by the reference model";
        }
        cellErr = fh::checkCellValues<Dim>(*b.tree, b.mt, ex, lstop, H, (done & 6) == 6, (done & 30) == 30);
        const auto got = fh::normalizedLog(ctx, b.mt, false);
        const auto exp = fh::expectedLog(b.mt, false, lstop, done);
        logErr = fh::diffLogs(got, exp, Dim);
    }
    if(wantValues){
        if(!valueErr.empty()) return "values: " + valueErr;
        if(!cellErr.empty()) return "cells: " + cellErr;
    }
    else{ if(!valueErr.empty()) st.cls("other-oracle:values"); if(!cellErr.empty()) st.cls("other-oracle:cells"); }
    if(wantLog){ if(!logErr.empty()) return "interactions: " + logErr; }
    else if(!logErr.empty()) st.cls("other-oracle:log");
    if(wantArgs){ if(!ctx.errors.empty()) return "arguments: " + ctx.errors.front(); }
    else if(!ctx.errors.empty()) st.cls("other-oracle:args");

    // ---- classification for evidence
    const long leafGroups = long(b.tree->getParticleGroups().size());
    const bool hasM2L = ctx.elems[probe::OpM2L] > 0, hasP2P = ctx.elems[probe::OpP2P] > 0;
    int m2mLevels = 0; for(int l = lstop ; l <= H - 2 ; ++l) m2mLevels += 1;
    bool multiGroupLevel = false; for(int l = 0 ; l < H ; ++l) if(b.tree->getCellGroupsAtLevel(l).size() >= 2) multiGroupLevel = true;
    st.cls("H=" + std::to_string(H));
    st.cls(std::string("blocksize:") + (c.blockSize == -1 ? (c.envBlock ? "env" : "auto") : (c.blockSize >= 10000000 ? "huge" : (c.blockSize == 1 ? "1" : "explicit"))));
    st.cls(ogpp ? "mode:oneGroupPerParent" : "mode:chunks");
    st.cls("m2m-levels:" + std::string(m2mLevels == 0 ? "0" : (m2mLevels == 1 ? "1" : ">=2")));
    if(b.mt.onFace) st.cls("particle-on-cell-face");
    if(long(b.mt.leafOf.size()) > long(b.mt.leaves.size())) st.cls("several-particles-per-leaf");
    if(ctx.calls[probe::OpM2M] > 0 && H >= 2){
        long parents = 0; for(int l = std::max(lstop, 0) ; l <= H - 2 ; ++l) parents += long(b.mt.cells[size_t(l)].size());
        if(ctx.calls[probe::OpM2M] > parents) st.cls("sibling-set-split-across-groups");
    }
    if(leafGroups >= 3) st.cls("leaf-groups>=3");
    const bool nontrivial = multiGroupLevel && hasM2L && hasP2P;
    if(nontrivial) st.noteNontrivial(hc::hashCase(c), c);
    return "";
}

pbt::GenCfg cfgFor(const std::string& prop, const hc::Args& a){
    pbt::GenCfg g;
    g.dim = Dim; g.real = RealCode;
    static const int hmax[5] = {0, 8, 6, 5, 4};
    g.maxH = int(a.getInt("maxh", hmax[Dim]));
    g.maxN = int(a.getInt("maxn", Dim == 4 ? 120 : 250));
    g.maxNextra = NX;
    if(prop == "C12"){ g.histories = true; g.lstops = true; }
    if(prop == "C01" || prop == "C02") g.lstops = (a.getInt("lstops", 1) != 0);
    return g;
}

} // namespace

int main(int argc, char** argv){
    hc::Args a = hc::parseArgs(argc, argv);
    if(a.prop.empty()){ std::cerr << "usage: --prop Cxx [--seed S --cases N --size M --out stats.json --fail case.json --cur cur.json] [--replay case.json]\n"; return 2; }
    const std::string prop = a.prop;
    return hc::runMain(a, cfgFor(prop, a), [&](const FmmCase& c){ return propSingle(c, prop); });
}
