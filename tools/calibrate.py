#!/usr/bin/env python3
"""Calibration campaign of the numerical accuracy bounds (C04/C05): runs every numerical binary in --mode calibrate over many
seeds and writes harness/props/bounds_table.inc = 8 x the maximum observed normalised error. Run by hand; the table is committed."""
import sys, os, subprocess, re, json
from concurrent.futures import ThreadPoolExecutor
VERIF = os.path.dirname(os.path.dirname(os.path.abspath(__file__)))
sys.path.insert(0, VERIF); sys.path.insert(0, os.path.join(VERIF, "harness"))
import importlib.machinery, importlib.util
loader = importlib.machinery.SourceFileLoader("check", os.path.join(VERIF, "check"))
spec = importlib.util.spec_from_loader("check", loader); check = importlib.util.module_from_spec(spec); loader.exec_module(check)
import plan

seeds = int(sys.argv[1]) if len(sys.argv) > 1 else 16
cases = int(sys.argv[2]) if len(sys.argv) > 2 else 150
b = check.Builder()
cfgs = sorted(set(plan.NUM_CONFIGS["C04"] + plan.NUM_CONFIGS["C05"]))
bins = {c: plan.num(c[0], c[1], c[2], c[3], c[4], c[5], low=c[6]) for c in cfgs}
res = b.build_all(list(bins.values()))
env = dict(os.environ); env.update(check.RUNENV)
out = {}
def run(args):
    c, seed = args
    st, exe = res[bins[c].name]
    if st != "ok":
        return c, None
    prop = "C04" if c[0] == 1 else "C05"
    p = subprocess.run([exe, "--prop", prop, "--mode", "calibrate", "--seed", str(seed), "--cases", str(cases)], env=env, stdout=subprocess.PIPE, stderr=subprocess.STDOUT, text=True)
    m = re.search(r"CALIBRATION .* maxPot=(\S+) maxForce=(\S+)", p.stdout)
    if not m or "FAIL" in p.stdout:
        print("problem", c, seed, p.stdout[-400:])
        return c, None
    return c, (float(m.group(1)), float(m.group(2)))
jobs = [(c, 1000 + s) for c in cfgs for s in range(seeds)]
with ThreadPoolExecutor(max_workers=16) as ex:
    for c, r in ex.map(run, jobs):
        if r is None: continue
        a = out.setdefault(c, [0.0, 0.0]); a[0] = max(a[0], r[0]); a[1] = max(a[1], r[1])
lines = []
for c in cfgs:
    if c not in out: continue
    # bounds are per (kernel, order, real, periodic): take the max over executor / tsm variants
    pass
agg = {}
for c, (p, f) in out.items():
    k = (c[0], c[1], 1 if c[2] == "float" else 0, c[4])
    a = agg.setdefault(k, [0.0, 0.0]); a[0] = max(a[0], p); a[1] = max(a[1], f)
for k in sorted(agg):
    print("calibrated", k, "maxPot=%.3e maxForce=%.3e" % tuple(agg[k]))
    lines.append("{%d,%d,%d,%d,%.3e,%.3e}," % (k[0], k[1], k[2], k[3], 8 * agg[k][0], 8 * agg[k][1]))
open(os.path.join(VERIF, "harness", "props", "bounds_table.inc"), "w").write("// kernel, order, real(0 double/1 float), periodic, bound potential, bound force  (= 8 x calibrated maximum)\n" + "\n".join(lines) + "\n")
json.dump({str(k): v for k, v in agg.items()}, open(os.path.join(VERIF, "bounds_calibration.json"), "w"), indent=1)
