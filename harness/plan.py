"""Which binaries and campaigns decide which property (read by ../check)."""


class Bin:
    def __init__(self, name, sources, defs=None, needs_pbt=True, cxxflags=(), ldflags=(), ldflags_pre=(), includes=(), lazy=False, fuzz=False):
        self.fuzz = fuzz          # libFuzzer target: built with clang++ -fsanitize=fuzzer,address,undefined, run with -runs/-seed
        self.name = name
        self.sources = list(sources)
        self.defs = dict(defs or {})
        self.needs_pbt = needs_pbt
        self.cxxflags = list(cxxflags)
        self.ldflags = list(ldflags)
        self.ldflags_pre = list(ldflags_pre)
        self.includes = list(includes)
        self.lazy = lazy


class Job:
    def __init__(self, name, bin, quick, thorough, args=(), env=None, thorough_only=False,
                 timeout_quick=900, timeout_thorough=3600, build_failure_is_violation=False, probe_only=False):
        self.probe_only = probe_only    # no campaign: only used to replay the probe case of a known finding
        self.args_thorough = None       # optional: other arguments in the thorough tier
        self.name = name
        self.bin = bin
        self.quick = quick          # (processes, cases per process, max size)
        self.thorough = thorough
        self.args = list(args)
        self.env = dict(env or {})
        self.thorough_only = thorough_only
        self.timeout_quick = timeout_quick
        self.timeout_thorough = timeout_thorough
        self.build_failure_is_violation = build_failure_is_violation


class Meta:
    def __init__(self, jobs, rule, assumptions):
        self.jobs = jobs
        self.rule = rule
        self.assumptions = assumptions


def single(dim, nx=1, real="double", datat=None):
    defs = {"DIM": dim, "NX": nx, "REALT": real}
    name = "t_single_d%d_nx%d_%s" % (dim, nx, real)
    if datat:
        defs["DATAT"] = datat
        name += "_" + datat
    return Bin(name, ["props/t_single.cpp"], defs)


COMMON_ASSUME = [
    "the reference model (harness/model/refmodel.hpp) states the definitions correctly; it is cross-checked at run time by the FMM partition identity",
    "collisions of the two independent 61-bit generating-function evaluations are neglected (probability about 2^-120 per comparison)",
    "generated positions respect the documented precondition 0 <= fl(p-corner) <= width and are unambiguous (exact arithmetic or a margin to every cell face)",
    "g++ 12 -O1 with ASan/UBSan, asserts enabled; other compilers/optimisation levels are not explored",
]

PROPS = {}

PROPS["C01"] = Meta(
    jobs=[
        Job("d3", single(3), quick=(6, 500, 100), thorough=(16, 6000, 100)),
        Job("d2", single(2), quick=(4, 500, 100), thorough=(16, 6000, 100)),
        Job("d1", single(1), quick=(3, 500, 100), thorough=(16, 6000, 100)),
        Job("d4", single(4), quick=(3, 250, 100), thorough=(16, 2500, 100)),
    ],
    rule="rapidcheck-generated FmmCase (dimension, height, dyadic/generic box, 7 particle distributions incl. faces/corners/coincident, "
         "block size 1..N+2/huge/automatic/environment, both grouping modes, upper working level); oracle = exact generating-function "
         "values of every particle and every cell against the definitional model + multiset of elementary interactions; "
         "non-trivial = some level has >= 2 groups and the run performed >= 1 M2L and >= 1 inter-leaf P2P; distinct by hash of the whole case",
    assumptions=COMMON_ASSUME,
)


def single_jobs(qcases, tcases, dims=(3, 2, 1, 4), qprocs=(5, 4, 3, 4), args=()):
    jobs = []
    for d, qp in zip(dims, qprocs):
        scale = 0.5 if d == 4 else 1.0
        jobs.append(Job("d%d" % d, single(d), quick=(qp, int(qcases * scale), 100), thorough=(16, int(tcases * scale), 100), args=args))
    return jobs


GEN_RULE = ("rapidcheck-generated FmmCase (dimension 1..4 as separate binaries, height, dyadic/generic box, 7 particle distributions incl. "
            "faces/corners/coincident, block size 1..N+2/huge/automatic/environment, both grouping modes); distinct by hash of the whole case; ")

PROPS["C02"] = Meta(single_jobs(400, 5000),
    GEN_RULE + "oracle = argument checks inside the probe kernel on every call (leaf membership by the model, bit-identical data rows, child/offset "
    "codes decoded by the documented conventions against the identity of the objects passed, level argument against the object's level, separation/adjacency, "
    "non-empty lists); non-trivial = >= 2 working levels and an M2L call with >= 2 sources", COMMON_ASSUME)
PROPS["C06"] = Meta(single_jobs(400, 5000),
    GEN_RULE + "oracle = each index stored once, in the leaf the model computes from its position, data rows bit-identical, results/expansions zero, "
    "byte snapshot of all symbolic buffers unchanged by execution; non-trivial = N >= 2 with a particle on a cell face or a non-unit box", COMMON_ASSUME)
PROPS["C07"] = Meta(single_jobs(400, 5000),
    GEN_RULE + "oracle = group/level invariants through the public accessors against the model's ancestor closure; non-trivial = >= 3 leaf groups", COMMON_ASSUME)
PROPS["C08"] = Meta(single_jobs(300, 4000),
    GEN_RULE + "plus a second grouping (block size, mode); oracle = equal multisets of elementary interactions (and equal to the model), equal cell and particle values; "
    "non-trivial = the two groupings issue a different number of kernel calls", COMMON_ASSUME)
PROPS["C12"] = Meta(single_jobs(300, 4000),
    GEN_RULE + "plus a generated ordered partition of the operator flags into 1..6 execute() calls and an upper working level 0..H+1; oracle = per call: only requested "
    "operators logged, none above the working level, only the outputs of the requested operators change (byte diff); at the end values equal the model and a single full run; "
    "non-trivial = >= 3 calls on a tree of height >= 3", COMMON_ASSUME)
PROPS["C16"] = Meta(single_jobs(200, 2500),
    GEN_RULE + "queries = every index in [-2, 2^(Dim*l)+2] when that is <= 4096, else present indices +-1, generated indices and range ends; oracle = found iff the model has "
    "the cell (definitional Morton index), returned position designates it, per-group accessors equal a linear scan; non-trivial = >= 3 leaf groups and an absent index queried "
    "strictly between the first and last index of the level", COMMON_ASSUME)
PROPS["C17"] = Meta(single_jobs(300, 4000),
    GEN_RULE + "oracle = getAllParticlesData()[i] equals the input row of particle i and getAllParticlesRhs()[i] the result accumulated by particle i; "
    "non-trivial = more particles than values per particle (where a transposition is visible)", COMMON_ASSUME)


def sched(rt, dim=3):
    name = {1: "omp", 2: "specx", 3: "starpu"}[rt]
    defs = {"DIM": dim, "RT": rt, "NX": 0}
    if rt == 1:
        # compiled with -fopenmp, linked WITHOUT libgomp: the mock GOMP ABI is the runtime
        return Bin("t_sched_%s_d%d" % (name, dim), ["props/t_sched.cpp", "runtimes/mockgomp.cpp"], defs, cxxflags=["-fopenmp"], ldflags=["-lpthread"])
    inc = {2: "runtimes/specx", 3: "runtimes/starpu"}[rt]
    import os
    return Bin("t_sched_%s_d%d" % (name, dim), ["props/t_sched.cpp"], defs, includes=[os.path.join(os.path.dirname(os.path.abspath(__file__)), inc)], ldflags=["-lpthread"])


SCHED_ASSUME = COMMON_ASSUME + [
    "the mock runtimes (harness/runtimes: GOMP ABI for g++ 12, Specx API, StarPU API) implement the dependence semantics of the real ones; a runtime entry point they do not know is a link error, never a silent pass",
    "task bodies execute atomically; intra-task interleavings are covered through the declared-dependency conflict check (data-race freedom) only",
    "g++ lowers tbfmm's 'commute' to 'inout' (_OPENMP=201511); the clang/libomp ABI is not mocked",
]

PROPS["C03"] = Meta(
    jobs=[
        Job("omp-d3", sched(1, 3), quick=(5, 250, 100), thorough=(16, 3000, 100)),
        Job("specx-d3", sched(2, 3), quick=(4, 250, 100), thorough=(16, 3000, 100)),
        Job("starpu-d3", sched(3, 3), quick=(4, 250, 100), thorough=(16, 3000, 100)),
        Job("omp-d2", sched(1, 2), quick=(3, 250, 100), thorough=(16, 3000, 100)),
    ],
    rule="FmmCase + thread count 1..16 + schedule (strategy: eager / all deferred FIFO, LIFO, random, priority inverted, priority order / mixed, and a generated decision list that also "
         "assigns worker ids) + constructor form (kernel given / configuration only) + working level; the mock runtime records the submitted tasks and declared dependencies and executes a linear "
         "extension; oracles: bit-identical cells and particles vs the sequential executor, same interaction multiset, every pair of conflicting accesses (recorded per task by the probe kernel) "
         "ordered or mutually exclusive in the declared DAG, kernel object = the one of the running worker, all tasks done at return, ASan stack/heap lifetime; "
         "non-trivial = >= 20 tasks, >= 1 task deferred past its creation, >= 2 worker ids used, >= 2 upward levels; distinct by hash of (case, schedule)",
    assumptions=SCHED_ASSUME,
)


def tsm(rt, dim=3):
    import os
    name = {0: "seq", 1: "omp", 2: "specx", 3: "starpu"}[rt]
    defs = {"DIM": dim, "RT": rt, "NX": 1}
    here = os.path.dirname(os.path.abspath(__file__))
    if rt == 1:
        return Bin("t_tsm_%s_d%d" % (name, dim), ["props/t_tsm.cpp", "runtimes/mockgomp.cpp"], defs, cxxflags=["-fopenmp"], ldflags=["-lpthread"])
    inc = {0: [], 2: [os.path.join(here, "runtimes/specx")], 3: [os.path.join(here, "runtimes/starpu")]}[rt]
    return Bin("t_tsm_%s_d%d" % (name, dim), ["props/t_tsm.cpp"], defs, includes=inc, ldflags=["-lpthread"])


PROPS["C03"].jobs += [
    Job("omp-tsm-d3", tsm(1, 3), quick=(3, 250, 100), thorough=(16, 3000, 100)),
    Job("specx-tsm-d3", tsm(2, 3), quick=(3, 250, 100), thorough=(16, 3000, 100)),
    Job("starpu-tsm-d3", tsm(3, 3), quick=(3, 250, 100), thorough=(16, 3000, 100)),
]

PROPS["C09"] = Meta(
    jobs=[
        Job("tsm-seq-d3", tsm(0, 3), quick=(5, 400, 100), thorough=(16, 5000, 100)),
        Job("tsm-seq-d2", tsm(0, 2), quick=(4, 400, 100), thorough=(16, 5000, 100)),
        Job("tsm-seq-d1", tsm(0, 1), quick=(2, 400, 100), thorough=(16, 5000, 100)),
        Job("tsm-omp-d3", tsm(1, 3), quick=(5, 250, 100), thorough=(16, 3000, 100)),
    ],
    rule="two independently generated particle sets (independent / identical positions / disjoint half boxes / one side in a single leaf / N=1), heights, block sizes, modes, "
         "working levels; oracle = every target value equals the model (each source once through exactly one of P2PTsm / M2L chain), source multipoles and target locals equal the model, "
         "multiset of elementary interactions equals the definitions (no target leaf ever a source), source particle bytes unchanged, argument checks; the OpenMP target/source executor "
         "additionally under generated schedules, bit-identical to the sequential one; non-trivial = some target cell has no source cell at its level and vice versa, >= 1 M2L and >= 1 P2PTsm",
    assumptions=SCHED_ASSUME,
)


def periodic(rt, tsmp, dim=3):
    name = "t_per_%s%s_d%d" % ("omp" if rt else "seq", "_tsm" if tsmp else "", dim)
    defs = {"DIM": dim, "RT": rt, "TSMP": tsmp, "NX": 0}
    if rt == 1:
        return Bin(name, ["props/t_periodic.cpp", "runtimes/mockgomp.cpp"], defs, cxxflags=["-fopenmp"], ldflags=["-lpthread"])
    return Bin(name, ["props/t_periodic.cpp"], defs, ldflags=["-lpthread"])


PROPS["C10"] = Meta(
    jobs=[
        Job("per-seq-d3", periodic(0, 0, 3), quick=(4, 300, 100), thorough=(16, 4000, 100)),
        Job("per-seq-d2", periodic(0, 0, 2), quick=(3, 300, 100), thorough=(16, 4000, 100)),
        Job("per-seq-d1", periodic(0, 0, 1), quick=(2, 300, 100), thorough=(16, 4000, 100)),
        Job("per-omp-d3", periodic(1, 0, 3), quick=(3, 200, 100), thorough=(16, 3000, 100)),
        Job("ptsm-d3", periodic(0, 1, 3), quick=(3, 300, 100), thorough=(16, 4000, 100)),
        Job("ptsm-d2", periodic(0, 1, 2), quick=(1, 300, 100), thorough=(16, 4000, 100)),
    ],
    rule="periodic FmmCase: height 2..Hmax(Dim), extra levels -1..5, per-dimension box widths, all groupings, particles incl. both periodic boundary layers; the documented four-call "
         "sequence with the generating-function kernel on the real tree (periodic ordering) and on the virtual levels (cell width from the level argument); oracle = closed-form value of "
         "'one contribution from every image in the reported repetition interval, none from itself', real-tree multipoles, interaction multiset of the real tree against the periodic "
         "definitions, argument checks on real and virtual levels, reported repetition counts consistent; non-trivial = extra levels >= 1 and a particle in a boundary leaf",
    assumptions=SCHED_ASSUME,
)


def index(dim, ord_):
    return Bin("t_index_d%d_%s" % (dim, ["morton", "pmorton", "hilbert"][ord_]), ["props/t_index.cpp"], {"DIM": dim, "ORD": ord_})


_c11 = []
for _d in (1, 2, 3, 4):
    for _o in (0, 1):
        _n = "%s-d%d" % (["morton", "pmorton"][_o], _d)
        _c11.append(Job(_n + "-exh", index(_d, _o), quick=(1, 1, 1), thorough=(1, 1, 1), args=["--mode", "exhaustive"]))
        _c11.append(Job(_n, index(_d, _o), quick=(1, 400, 100), thorough=(8, 4000, 100)))
_c11.append(Job("hilbert-d3-exh", index(3, 2), quick=(1, 1, 1), thorough=(1, 1, 1), args=["--mode", "exhaustive"]))
_c11.append(Job("hilbert-d3", index(3, 2), quick=(1, 400, 100), thorough=(8, 4000, 100)))
_c11.append(Job("hilbert-d3-cross", index(3, 2), quick=(0, 0, 0), thorough=(0, 0, 0), args=["--cross", "1"], probe_only=True))
PROPS["C11"] = Meta(_c11,
    "exhaustive: every cell of every level of a tree of height 7/5/4/3 (Dim 1..4) per ordering; random: rapidcheck-generated (height, list of cells) up to 60-bit indices "
    "(heights <= 31: see known finding F-DEEP-LEVEL); per cell: coordinate<->index bijection against the definitional Morton interleave, parent/child/octant code, interaction and neighbour "
    "lists equal to the definitional sets (clipped or wrapped), upper-half filter keeps exactly one direction of each adjacent pair; per generated group of cells: block builders = union of the "
    "per-cell definitions split by the group's index range, with both filter flags, position codes; whole code range encode/decode; Hilbert(3-D): same within one level, relations across "
    "levels excluded (known finding F-HILBERT, probed); non-trivial = a case containing a cell of level >= 2 (interior: full lists, boundary: clipped lists)",
    ["the definitional lists of harness/model/refmodel.hpp", "for the Hilbert ordering no independent definition of the curve exists: coordinates<->index is checked as a bijection and lists are compared in coordinates"])


def p2p(real):
    return Bin("t_p2p_%s" % real, ["props/t_p2p.cpp"], {"REALT": real})


PROPS["C20"] = Meta(
    [Job("p2p-double", p2p("double"), quick=(6, 500, 100), thorough=(16, 6000, 100)),
     Job("p2p-float", p2p("float"), quick=(6, 500, 100), thorough=(16, 6000, 100))],
    "two generated particle clouds: counts from {0,1,2,3,4,7,8,9,15,16,17,31,32,33} or 0..500, cluster spread 1e-6..1e6, cluster offset from the origin up to 1e6 spreads "
    "(1e2 in float), separation between the clouds 0 (overlapping) .. 1e3 spreads, charges of either sign, result arrays pre-filled with random values; oracle = long double "
    "evaluation of the pairwise law per target (potential sum q_j/r, force q_i q_j (x_j-x_i)/r^3), tolerance (32+4n) eps sum|terms| + (8+2n) eps (|prefill|+sum|terms|); "
    "GenericInner excludes the self term (N=1 leaves the arrays untouched), FullMutual = two one-sided sums and total force zero to rounding; "
    "non-trivial = both counts >= 2 and not multiples of 4; scalar path only (Inastemp is not in the image)",
    ["long double (80-bit) reference evaluation", "no coincident particles (the law is singular); such generated cases are skipped and counted"])


PROPS["C14"] = Meta(
    [Job("memblock", Bin("t_memblock", ["props/t_memblock.cpp"]), quick=(6, 600, 100), thorough=(16, 8000, 100))] + single_jobs(200, 3000, dims=(3, 2), qprocs=(4, 3)),
    "container part: 12 compiled TbfMemoryBlock layouts (1..4 sub-blocks of Scalar/Vector/MultiRVector/MultiVVector, element sizes 1,2,3,8,24,64,100,128,4096), item counts 0..10^4 biased to "
    "k*64/sizeof +-1, generated operation sequences (reset with new sizes incl. shrinking reuse, move construction, move assignment, byte copy to a 16-byte aligned buffer + raw view); oracle = "
    "every element reached by every accessor lies in the sub-block range given by the trailer, ranges ascending/disjoint/below the trailer, no two elements overlap, all accessors reach the same "
    "elements, values written through one are read through the others and through a raw view of a byte copy, fresh blocks are zero, moved-from blocks are empty; "
    "group part: every cell/particle group of generated trees is byte-copied and viewed through the raw constructors: equal accessors, accessors inside the copied buffers, and "
    "P2M/M2L-in-group/L2P/P2P operators give the same bytes on the copy; non-trivial = >= 2 sub-blocks with a count that is not a multiple of the alignment / >= 2 leaf groups",
    COMMON_ASSUME + ["the trailer layout (counts in the last NbBlocks longs, offsets before) is taken as the documented self-description: it is what the raw-memory constructor reads"])


def rebuild(dim, real="double", datat=None, periodic=0, nx=2, ord_=None, exec_=0):
    if ord_ is None:
        ord_ = periodic
    defs = {"DIM": dim, "NX": nx, "REALT": real, "ORD": ord_, "EXEC": exec_}
    name = "t_rebuild_d%d_%s" % (dim, real) + ("" if nx == 2 else "_nx%d" % nx)
    if datat:
        defs["DATAT"] = datat
        name += "_" + datat
    name += ["", "_per", "_hilbert"][ord_]
    if exec_ == 1:
        return Bin(name + "_omp", ["props/t_rebuild.cpp", "runtimes/mockgomp.cpp"], defs, cxxflags=["-fopenmp"], ldflags=["-lpthread"])
    return Bin(name, ["props/t_rebuild.cpp"], defs)


def rebuild_jobs(q, t):
    return [
        Job("rb-d3", rebuild(3), quick=(4, q, 100), thorough=(16, t, 100)),
        Job("rb-d2", rebuild(2), quick=(3, q, 100), thorough=(16, t, 100)),
        Job("rb-d1", rebuild(1), quick=(2, q, 100), thorough=(16, t, 100)),
        Job("rb-d3-periodic", rebuild(3, periodic=1), quick=(3, q, 100), thorough=(16, t, 100)),
        Job("rb-d3-float-double", rebuild(3, "float", "double"), quick=(2, q, 100), thorough=(16, t, 100)),
        Job("rb-d1-double-float", rebuild(1, "double", "float"), quick=(1, q, 100), thorough=(16, t, 100)),
        Job("rb-d2-float", rebuild(2, "float"), quick=(1, q, 100), thorough=(16, t, 100)),
    ]


PROPS["C13"] = Meta(rebuild_jobs(250, 3000),
    "stateful histories: build, execute, then 1..4 cycles of {move a generated subset of particles (jitter / teleport / gather all into one leaf / scatter all / no move) by writing the "
    "positions in place, rebuild(), check, execute(), check}; oracle after rebuild: structure invariants of C07 against the model of the edited positions, every index once in the leaf of its "
    "new position with bit-identical data rows, accumulated results preserved exactly, all expansions zero, grouping identical to a tree freshly built from the edited particles; after execute: "
    "results = preserved + one model interaction; variants: Dim 1..3, periodic ordering, (float,double) and (double,float) coordinate/data types; "
    "non-trivial = a move that changes the number of occupied leaves", COMMON_ASSUME)
PROPS["C17"].jobs += [Job("rb-d3", rebuild(3), quick=(2, 200, 100), thorough=(16, 2000, 100)),
                      Job("rb-d3-float-double", rebuild(3, "float", "double"), quick=(2, 200, 100), thorough=(16, 2000, 100))]
PROPS["C07"].jobs += [Job("rb-d3", rebuild(3), quick=(2, 200, 100), thorough=(16, 2000, 100)), Job("rb-d2", rebuild(2), quick=(1, 200, 100), thorough=(16, 2000, 100))]
PROPS["C06"].jobs += [Job("d3-float", single(3, 1, "float"), quick=(2, 300, 100), thorough=(16, 4000, 100)),
                      Job("d3-float-double", single(3, 2, "float", "double"), quick=(2, 300, 100), thorough=(16, 4000, 100)),
                      Job("d2-double-float", single(2, 3, "double", "float"), quick=(2, 300, 100), thorough=(16, 4000, 100)),
                      Job("d3-nx0", single(3, 0), quick=(1, 300, 100), thorough=(16, 4000, 100))]
PROPS["C01"].jobs += [Job("d3-float", single(3, 1, "float"), quick=(2, 300, 100), thorough=(16, 4000, 100))]


def counter(rt, dim=3):
    if rt == 1:
        return Bin("t_counter_omp_d%d" % dim, ["props/t_counter.cpp", "runtimes/mockgomp.cpp"], {"DIM": dim, "RT": 1}, cxxflags=["-fopenmp"], ldflags=["-lpthread"])
    return Bin("t_counter_seq_d%d" % dim, ["props/t_counter.cpp"], {"DIM": dim, "RT": 0})


PROPS["C18"] = Meta(
    [Job("cnt-seq-d3", counter(0, 3), quick=(4, 400, 100), thorough=(16, 5000, 100)),
     Job("cnt-seq-d2", counter(0, 2), quick=(3, 400, 100), thorough=(16, 5000, 100)),
     Job("cnt-omp-d3", counter(1, 3), quick=(5, 300, 100), thorough=(16, 4000, 100)),
     Job("cnt-omp-d2", counter(1, 2), quick=(2, 300, 100), thorough=(16, 4000, 100))],
    "FmmCase (all block sizes / modes / working levels) run 1..3 times with TbfInteractionCounter<probe kernel>, sequentially and with the OpenMP executor under generated schedules and "
    "1..16 workers; per-worker counters merged with Reduce in a generated order; oracle = results bit-identical to the unwrapped kernel, merged counters = model counts x executions "
    "(P2M=L2P=leaves, M2M=L2L=parent-child links at working levels, M2L=existing transfer pairs, P2P=sum n_a*n_b over adjacent unordered leaf pairs, P2PInner=sum n(n-1)); "
    "non-trivial = counts spread over >= 2 kernel copies (OpenMP) / >= 1 M2L and >= 1 P2P (sequential)", SCHED_ASSUME)


# ---- C19: the documented template cross product, one translation unit (binary) per compile-time configuration ----------
def _c19_jobs():
    import os
    here = os.path.dirname(os.path.abspath(__file__))
    full = []
    for dim in (1, 2, 3, 4):
        for real in ("double", "float"):
            for ord_ in (0, 1, 2):
                if ord_ == 2 and dim != 3:
                    continue          # the Hilbert ordering is documented (and statically asserted) for dimension 3 only
                for ex in (0, 1):
                    full.append(("cfg-d%d-%s-%s-%s" % (dim, real, ["morton", "pmorton", "hilbert"][ord_], ["seq", "omp"][ex]), rebuild(dim, real, ord_=ord_, exec_=ex)))
        full.append(("cfg-d%d-tsm-seq" % dim, tsm(0, dim)))
        full.append(("cfg-d%d-norhs" % dim, Bin("t_norhs_d%d_double" % dim, ["props/t_norhs.cpp"], {"DIM": dim, "REALT": "double"})))
    full.append(("cfg-d3-norhs-float", Bin("t_norhs_d3_float", ["props/t_norhs.cpp"], {"DIM": 3, "REALT": "float"})))
    full.append(("cfg-d3-float-double", rebuild(3, "float", "double")))
    full.append(("cfg-d1-double-float", rebuild(1, "double", "float")))
    for dim in (3, 2):
        full.append(("cfg-d%d-all-runtimes" % dim, Bin("t_selecter_d%d" % dim, ["props/t_selecter.cpp", "runtimes/mockgomp.cpp"], {"DIM": dim}, cxxflags=["-fopenmp"], ldflags=["-lpthread"],
                                                    includes=[os.path.join(here, "runtimes/specx"), os.path.join(here, "runtimes/starpu")])))
    # quick = a fixed subset covering every value of every dimension and every pair (dimension, ordering), (dimension, executor), (type, ordering)
    quick = {"cfg-d1-double-morton-seq", "cfg-d1-float-pmorton-omp", "cfg-d2-float-morton-omp", "cfg-d2-double-pmorton-seq", "cfg-d3-double-morton-omp", "cfg-d3-float-pmorton-seq",
             "cfg-d3-double-hilbert-seq", "cfg-d3-float-hilbert-omp", "cfg-d4-float-morton-seq", "cfg-d4-double-pmorton-omp", "cfg-d2-tsm-seq", "cfg-d4-tsm-seq", "cfg-d1-norhs", "cfg-d3-norhs-float",
             "cfg-d3-float-double", "cfg-d1-double-float", "cfg-d3-all-runtimes", "cfg-d2-all-runtimes"}
    jobs = []
    for name, b in full:
        jobs.append(Job(name, b, quick=(1, 120, 100), thorough=(2, 1000, 100), thorough_only=(name not in quick), build_failure_is_violation=True))
    jobs.append(Job("cfg-d3-double-hilbert-geometry", rebuild(3, "double", ord_=2), quick=(0, 0, 0), thorough=(0, 0, 0), args=["--hilbert-geometry", "1"], probe_only=True))
    return jobs


PROPS["C19"] = Meta(_c19_jobs(),
    "generated programs: one binary (translation unit + harness) per compile-time configuration of the documented cross product dimension {1,2,3,4} x coordinate type {float,double} x ordering "
    "{Morton, periodic Morton, Hilbert(3-D)} x executor {sequential, OpenMP} (+ sequential on a target/source tree, data type != coordinate type, zero result values, and the build with OpenMP, "
    "Specx and StarPU all enabled through the algorithm selector header); block size {automatic, environment, explicit} and {with, without rebuild} are generated per case inside each binary; "
    "oracle = the binary compiles and links (a build failure is the violation, replay = compiler log) and its embedded structure (C07), construction (C06), exactly-once (C01/C09) and "
    "rebuild (C13) oracles hold on generated cases; quick = 18 configurations covering every value and the main pairs, thorough = all 49; "
    "non-trivial = a case whose move changes the number of occupied leaves (cfg binaries) / >= 2 leaves (others); Hilbert: geometry-free values and leaf-level coordinates only (F-HILBERT)",
    SCHED_ASSUME)


def num(kernel, order, real="double", rt=0, periodic=0, tsmn=0, low=None, chain=False):
    name = "t_num_%s%d%s_%s%s%s%s%s" % ({1: "rot", 2: "unif"}[kernel], order, ("vs%d" % low) if low else "", real, "_omp" if rt else "", "_per" if periodic else "", "_tsm" if tsmn else "", "_chain" if chain else "")
    defs = {"KERNEL": kernel, "ORDERV": order, "REALT": real, "RT": rt, "PERIODIC": periodic, "TSMN": tsmn}
    if low:
        defs["ORDERLOW"] = low
    if chain:
        defs["ORDERCHAIN"] = None
    srcs = ["props/t_num.cpp"] + (["runtimes/mockgomp.cpp"] if rt else [])
    cxx = (["-fopenmp"] if rt else []) + ["-O2"]       # numerical kernels are heavy: optimise (sanitizers and assertions stay on)
    defs2 = dict(defs)
    ld = ["-lpthread"]
    if kernel == 2:
        defs2["TBF_USE_FFTW"] = None
        ld += ["-lfftw3", "-lfftw3f"]
    return Bin(name, srcs, defs2, cxxflags=cxx, ldflags=ld)


NUM_CONFIGS = {
    "C04": [(1, 4, "double", 0, 0, 0), (1, 8, "double", 0, 0, 0), (1, 12, "double", 0, 0, 0), (1, 6, "double", 0, 0, 0),
            (1, 4, "float", 0, 0, 0), (1, 8, "float", 0, 0, 0),
            (1, 8, "double", 1, 0, 0), (1, 4, "double", 0, 1, 0), (1, 8, "double", 0, 1, 0), (1, 4, "double", 0, 0, 1)],
    "C05": [(2, 3, "double", 0, 0, 0), (2, 5, "double", 0, 0, 0), (2, 8, "double", 0, 0, 0),
            (2, 3, "float", 0, 0, 0), (2, 5, "float", 0, 0, 0),
            (2, 5, "double", 1, 0, 0), (2, 3, "double", 0, 1, 0), (2, 5, "double", 0, 1, 0), (2, 5, "double", 0, 0, 1), (2, 3, "double", 0, 1, 1)],
}


# ---- C15: the sanitizer sweep reuses the binaries (hence the generators) of C01, C09, C10, C13, C03 with --prop C15 ----------------
PROPS["C15"] = Meta(
    [Job("d3", single(3), quick=(3, 300, 100), thorough=(16, 4000, 100)),
     Job("d2", single(2), quick=(2, 300, 100), thorough=(16, 4000, 100)),
     Job("d1", single(1), quick=(1, 300, 100), thorough=(16, 4000, 100)),
     Job("d4", single(4), quick=(3, 375, 100), thorough=(16, 2000, 100)),
     Job("d3-float", single(3, 1, "float"), quick=(1, 300, 100), thorough=(16, 4000, 100)),
     Job("tsm-seq-d3", tsm(0, 3), quick=(2, 300, 100), thorough=(16, 4000, 100)),
     Job("tsm-seq-d2", tsm(0, 2), quick=(1, 300, 100), thorough=(16, 4000, 100)),
     Job("per-seq-d3", periodic(0, 0, 3), quick=(2, 200, 100), thorough=(16, 3000, 100)),
     Job("per-seq-d2", periodic(0, 0, 2), quick=(1, 200, 100), thorough=(16, 3000, 100)),
     Job("per-omp-d3", periodic(1, 0, 3), quick=(1, 200, 100), thorough=(16, 3000, 100)),
     Job("ptsm-d3", periodic(0, 1, 3), quick=(1, 200, 100), thorough=(16, 3000, 100)),
     Job("rb-d3", rebuild(3), quick=(2, 200, 100), thorough=(16, 3000, 100)),
     Job("rb-d2", rebuild(2), quick=(1, 200, 100), thorough=(16, 3000, 100)),
     Job("rb-d3-periodic", rebuild(3, periodic=1), quick=(1, 200, 100), thorough=(16, 3000, 100)),
     Job("rb-d3-float-double", rebuild(3, "float", "double"), quick=(1, 200, 100), thorough=(16, 3000, 100)),
     Job("omp-d3", sched(1, 3), quick=(3, 200, 100), thorough=(16, 3000, 100)),
     Job("specx-d3", sched(2, 3), quick=(2, 200, 100), thorough=(16, 3000, 100)),
     Job("starpu-d3", sched(3, 3), quick=(2, 200, 100), thorough=(16, 3000, 100)),
     Job("omp-tsm-d3", tsm(1, 3), quick=(2, 200, 100), thorough=(16, 3000, 100)),
     Job("specx-tsm-d3", tsm(2, 3), quick=(1, 200, 100), thorough=(16, 3000, 100)),
     Job("starpu-tsm-d3", tsm(3, 3), quick=(1, 200, 100), thorough=(16, 3000, 100)),
     Job("memblock", Bin("t_memblock", ["props/t_memblock.cpp"]), quick=(1, 400, 100), thorough=(16, 6000, 100))],
    "the generators of C01 (single trees, Dim 1..4, float), C09 (target/source), C10 (periodic, OpenMP, target/source top tree), C13 (move/rebuild/execute histories, periodic ordering, mixed "
    "coordinate/data types), and the schedules of C03 (OpenMP, Specx, StarPU executors and their target/source variants under the mock runtimes), run under AddressSanitizer "
    "(heap/stack/global bounds, use-after-free/-return/-scope), LeakSanitizer (leak check after every case), UndefinedBehaviorSanitizer (-fno-sanitize-recover), libstdc++ assertions, "
    "-ftrivial-auto-var-init=pattern and the library's own asserts (-UNDEBUG); oracle = no report / abort / leak; semantic oracles of the owning properties are evaluated but only counted; "
    "non-trivial as defined by the owning binary; distinct by hash of the case",
    SCHED_ASSUME + ["MemorySanitizer is not usable in this image (no instrumented libstdc++): uninitialised reads are made deterministic with pattern initialisation and are caught by the semantic oracles of the owning properties instead"])


NUM_RULE = ("FmmCase in a cubic box (unit / dyadic / generic, any centre), heights 1..6 (periodic 2..4), N up to 300 (periodic 60), 7 distributions incl. cell faces (exactly on faces only for dyadic boxes), "
            "signed charges |q| in [1e-3,1], no coincident particles, no coordinate equal to the leaf-centre coordinate (rotation kernel known findings); oracle = long double pairwise sum "
            "(explicit sum over the images of the reported repetition interval when periodic): all results finite, max normalised potential/force error below 8 x the calibrated maximum of the order "
            "(bounds_table.inc), error shrinks with the order (pair binary evaluating a low and a high order on the same case: hard per-case factor and median ratio over the campaign), and three "
            "metamorphic relations to rounding: second block size/grouping mode, charge scaling (target/source: linear splitting of the source charges), power-of-two scaling + dyadic shift of the box; "
            "non-trivial = the tree has a far field (>= 1 transfer pair) and >= 1 upward translation level")
NUM_ASSUME = COMMON_ASSUME[2:] + ["accuracy bounds are empirical (8 x calibration maximum): truncation-order-sized defects are below the resolution of the threshold oracle; the convergence and metamorphic relations do not depend on them",
                                  "'to rounding' = relative 1e-12 (rotation) / 1e-9 (uniform) of the sum of absolute contributions in double, 2e-5 / 2e-4 in float"]

PROPS["C04"] = Meta(
    [Job("rot12vs4", num(1, 12, low=4), quick=(6, 40, 100), thorough=(16, 500, 100)),
     Job("rot8-omp", num(1, 8, rt=1), quick=(3, 30, 100), thorough=(16, 300, 100)),
     Job("rot4-periodic", num(1, 4, periodic=1), quick=(3, 25, 100), thorough=(16, 250, 100)),
     Job("rot8-float", num(1, 8, "float"), quick=(2, 40, 100), thorough=(16, 400, 100)),
     Job("rot4-tsm", num(1, 4, tsmn=1), quick=(2, 40, 100), thorough=(16, 400, 100)),
     Job("rot6", num(1, 6), quick=(1, 30, 100), thorough=(16, 400, 100), thorough_only=True),
     Job("rot8-periodic", num(1, 8, periodic=1), quick=(1, 25, 100), thorough=(16, 200, 100), thorough_only=True),
     Job("rot4-float", num(1, 4, "float"), quick=(1, 30, 100), thorough=(16, 400, 100), thorough_only=True)],
    NUM_RULE, NUM_ASSUME)
PROPS["C05"] = Meta(
    [Job("unif8vs3", num(2, 8, low=3), quick=(6, 30, 100), thorough=(16, 400, 100)),
     Job("unif5-omp", num(2, 5, rt=1), quick=(3, 30, 100), thorough=(16, 300, 100)),
     Job("unif5-periodic", num(2, 5, periodic=1), quick=(3, 25, 100), thorough=(16, 250, 100)),
     Job("unif5-float", num(2, 5, "float"), quick=(2, 40, 100), thorough=(16, 400, 100)),
     Job("unif5-tsm", num(2, 5, tsmn=1), quick=(2, 40, 100), thorough=(16, 400, 100)),
     Job("unif3-periodic-tsm", num(2, 3, periodic=1, tsmn=1), quick=(1, 25, 100), thorough=(16, 200, 100)),
     Job("unif5-periodic-tsm", num(2, 5, periodic=1, tsmn=1), quick=(2, 25, 100), thorough=(16, 200, 100)),
     Job("unif3-float", num(2, 3, "float"), quick=(1, 30, 100), thorough=(16, 400, 100), thorough_only=True)],
    NUM_RULE, NUM_ASSUME)
NUM_CONFIGS = {"C04": [(1, 12, "double", 0, 0, 0, 4), (1, 8, "double", 1, 0, 0, None), (1, 4, "double", 0, 1, 0, None), (1, 8, "float", 0, 0, 0, None), (1, 4, "double", 0, 0, 1, None),
                       (1, 6, "double", 0, 0, 0, None), (1, 8, "double", 0, 1, 0, None), (1, 4, "float", 0, 0, 0, None)],
               "C05": [(2, 8, "double", 0, 0, 0, 3), (2, 5, "double", 1, 0, 0, None), (2, 5, "double", 0, 1, 0, None), (2, 5, "float", 0, 0, 0, None), (2, 5, "double", 0, 0, 1, None),
                       (2, 3, "double", 0, 1, 1, None), (2, 3, "float", 0, 0, 0, None)]}


# ---- quick tier sizing: with all campaigns of a property sharing one 16-slot pool the quick tier has room for more cases -------------
_QUICK_FACTOR = {"C01": 3, "C02": 4, "C03": 3, "C06": 3, "C07": 3, "C08": 4, "C09": 3, "C10": 3, "C12": 4, "C13": 3, "C14": 3, "C15": 2, "C16": 4, "C17": 4, "C18": 3, "C20": 3, "C04": 3, "C05": 3}
for _p, _f in _QUICK_FACTOR.items():
    for _j in PROPS[_p].jobs:
        _pr, _ca, _sz = _j.quick
        if _pr > 0:
            _j.quick = (_pr, _ca * _f, _sz)


# ---- C05 quantifies over the orders 3..8 and every order has its own node / operator tables: one binary evaluates all six orders on the same case
PROPS["C05"].jobs += [Job("unif-chain-3to8", num(2, 8, chain=True), quick=(3, 60, 100), thorough=(16, 250, 100)),
                      Job("unif-chain-3to8-periodic", num(2, 8, periodic=1, chain=True), quick=(1, 30, 100), thorough=(16, 150, 100), thorough_only=True)]


# ---- libFuzzer targets (coverage-guided, structure-aware decode in model/bytes.hpp, same oracles as the rapidcheck binaries) -------------
def fuzz_bin(kind, dim, tsmp=0):
    if kind == "tree":
        return Bin("fz_tree_d%d" % dim, ["props/t_single.cpp"], {"DIM": dim, "NX": 1, "FUZZ_TARGET": None}, needs_pbt=False, fuzz=True)
    if kind == "tsm":
        return Bin("fz_tsm_d%d" % dim, ["props/t_tsm.cpp"], {"DIM": dim, "NX": 1, "RT": 0, "FUZZ_TARGET": None}, needs_pbt=False, fuzz=True)
    return Bin("fz_per_d%d%s" % (dim, "_tsm" if tsmp else ""), ["props/t_periodic.cpp"], {"DIM": dim, "NX": 0, "RT": 0, "TSMP": tsmp, "FUZZ_TARGET": None}, needs_pbt=False, fuzz=True)


def fuzz_job(name, b, quick_runs, thorough_runs, qprocs=4, thorough_only=False):
    # for fuzz jobs: cases = -runs, size = -max_len
    return Job(name, b, quick=(qprocs, quick_runs, 256), thorough=(16, thorough_runs, 256), thorough_only=thorough_only, timeout_quick=600, timeout_thorough=3000)


PROPS["C01"].jobs += [fuzz_job("fuzz-tree-d3", fuzz_bin("tree", 3), 5000, 60000), fuzz_job("fuzz-tree-d2", fuzz_bin("tree", 2), 5000, 60000, thorough_only=True)]
PROPS["C07"].jobs += [fuzz_job("fuzz-tree-d3", fuzz_bin("tree", 3), 5000, 60000, thorough_only=True)]
PROPS["C06"].jobs += [fuzz_job("fuzz-tree-d2", fuzz_bin("tree", 2), 5000, 60000, thorough_only=True)]
PROPS["C02"].jobs += [fuzz_job("fuzz-tree-d3", fuzz_bin("tree", 3), 5000, 60000, thorough_only=True)]
PROPS["C09"].jobs += [fuzz_job("fuzz-tsm-d3", fuzz_bin("tsm", 3), 5000, 60000, thorough_only=True), fuzz_job("fuzz-tsm-d2", fuzz_bin("tsm", 2), 4000, 60000, qprocs=3)]
PROPS["C10"].jobs += [fuzz_job("fuzz-per-d2", fuzz_bin("per", 2), 4000, 50000, qprocs=3), fuzz_job("fuzz-per-d3-tsm", fuzz_bin("per", 3, 1), 4000, 40000, thorough_only=True)]
PROPS["C15"].jobs += [fuzz_job("fuzz-tree-d3", fuzz_bin("tree", 3), 4000, 60000, qprocs=3), fuzz_job("fuzz-tsm-d3", fuzz_bin("tsm", 3), 4000, 60000, thorough_only=True),
                      fuzz_job("fuzz-per-d2", fuzz_bin("per", 2), 4000, 50000, thorough_only=True)]


# ---- bounded-exhaustive occupancy patterns of small trees (C01, C07): every non-empty subset of the leaves x block sizes {1,2,3,5,n} x both modes
def exhaustive_jobs():
    jobs = []
    # (dimension, height, processes): 2^16-1 patterns for Dim 1 H 5 and Dim 2 H 3, 255 for Dim 3 H 2 and Dim 1 H 4.
    # thorough: every pattern; quick: every 16th pattern of the two large enumerations (all of the small ones)
    for dim, h, parts in ((1, 5, 6), (2, 3, 6), (3, 2, 1), (1, 4, 1)):
        for k in range(parts):
            big = parts > 1
            j = Job("exh-d%d-h%d-%d" % (dim, h, k), single(dim), quick=(1, 1, 1), thorough=(1, 1, 1),
                    args=["--mode", "exhaustive", "--exh", str(h), "--part", str(k), "--parts", str(parts * (16 if big else 1))])
            j.args_thorough = ["--mode", "exhaustive", "--exh", str(h), "--part", str(k), "--parts", str(parts)]
            jobs.append(j)
    return jobs


PROPS["C01"].jobs += exhaustive_jobs()
PROPS["C07"].jobs += exhaustive_jobs()


# ---- C02 also quantifies over the other executors and orderings: run their binaries with --prop C02 (argument checks asserted) -------------
PROPS["C02"].jobs += [
    Job("tsm-seq-d3", tsm(0, 3), quick=(2, 600, 100), thorough=(16, 4000, 100)),
    Job("per-seq-d3", periodic(0, 0, 3), quick=(2, 500, 100), thorough=(16, 3000, 100)),
    Job("per-seq-d2", periodic(0, 0, 2), quick=(1, 500, 100), thorough=(16, 3000, 100)),
    Job("ptsm-d3", periodic(0, 1, 3), quick=(2, 500, 100), thorough=(16, 3000, 100)),
    Job("omp-d3", sched(1, 3), quick=(2, 500, 100), thorough=(16, 3000, 100)),
    Job("omp-tsm-d3", tsm(1, 3), quick=(1, 500, 100), thorough=(16, 3000, 100)),
]


# ---- C12 quantifies over "all executors": staged histories on the task executors and on the target/source executors. Oracles: the
# sequential target/source executor against the model (values of the union of the flags, per call only requested operators, none above the
# working level); every task executor bit-identical to the sequential executor given the same history, per call only requested operators
PROPS["C12"].jobs += [
    Job("tsm-seq-d3", tsm(0, 3), quick=(2, 500, 100), thorough=(16, 4000, 100)),
    Job("tsm-seq-d2", tsm(0, 2), quick=(1, 500, 100), thorough=(16, 4000, 100)),
    Job("omp-d3", sched(1, 3), quick=(2, 300, 100), thorough=(16, 3000, 100)),
    Job("specx-d3", sched(2, 3), quick=(1, 300, 100), thorough=(16, 3000, 100)),
    Job("starpu-d3", sched(3, 3), quick=(1, 300, 100), thorough=(16, 3000, 100)),
    Job("omp-tsm-d3", tsm(1, 3), quick=(1, 300, 100), thorough=(16, 3000, 100)),
    Job("specx-tsm-d3", tsm(2, 3), quick=(1, 300, 100), thorough=(16, 3000, 100)),
    Job("starpu-tsm-d3", tsm(3, 3), quick=(1, 300, 100), thorough=(16, 3000, 100)),
]
PROPS["C12"].jobs += [
    Job("per-seq-d3", periodic(0, 0, 3), quick=(2, 400, 100), thorough=(16, 3000, 100)),
    Job("per-seq-d2", periodic(0, 0, 2), quick=(1, 400, 100), thorough=(16, 3000, 100)),
    Job("ptsm-d3", periodic(0, 1, 3), quick=(1, 400, 100), thorough=(16, 3000, 100)),
    Job("per-omp-d3", periodic(1, 0, 3), quick=(1, 300, 100), thorough=(16, 2000, 100)),
]
PROPS["C12"].assumptions = SCHED_ASSUME


# ---- periodic ordering x target/source tree x OpenMP executor (no job combined the three until a seeded change clamped the working level of
# the OpenMP target/source executor to 2, which only the periodic model - working level 1 - notices)
for _p, _q in (("C10", (2, 300, 100)), ("C19", (1, 200, 100)), ("C12", (1, 300, 100)), ("C15", (1, 200, 100)), ("C02", (1, 300, 100))):
    PROPS[_p].jobs.append(Job("ptsm-omp-d3", periodic(1, 1, 3), quick=_q, thorough=(16, 2500, 100)))

# ---- C09 over move / rebuild / execute histories with one executor object (a seeded cache of interaction lists keyed by group bounds)
PROPS["C09"].jobs += [Job("tsm-seq-d3-cycles", tsm(0, 3), quick=(2, 500, 100), thorough=(16, 3000, 100), args=["--cycles", "1"]),
                      Job("tsm-seq-d2-cycles", tsm(0, 2), quick=(1, 500, 100), thorough=(16, 3000, 100), args=["--cycles", "1"])]

# ---- C02 on the Specx / StarPU executors as well (a level captured by reference in a Specx task body was only seen by C03 through ASan)
PROPS["C02"].jobs += [
    Job("specx-d3", sched(2, 3), quick=(1, 400, 100), thorough=(16, 3000, 100)),
    Job("starpu-d3", sched(3, 3), quick=(1, 400, 100), thorough=(16, 3000, 100)),
    Job("specx-tsm-d3", tsm(2, 3), quick=(1, 300, 100), thorough=(16, 3000, 100)),
    Job("starpu-tsm-d3", tsm(3, 3), quick=(1, 300, 100), thorough=(16, 3000, 100)),
]

# ---- C08 on rebuilt trees: rebuild() re-groups with the block size and grouping mode of the tree (a second copy of the grouping code);
# the oracle is the one of C13 (values after rebuild + execution equal the model whatever the grouping, structure of a fresh build)
PROPS["C08"].jobs += [
    Job("rb-d3", rebuild(3), quick=(2, 500, 100), thorough=(16, 2000, 100)),
    Job("rb-d2", rebuild(2), quick=(1, 500, 100), thorough=(16, 2000, 100)),
]


# ---- target/source trees in C13 (rebuild), C07 (structure of both trees), C06 (construction of both trees) ---------------------------------
PROPS["C13"].jobs += [Job("tsm-seq-d3", tsm(0, 3), quick=(3, 450, 100), thorough=(16, 3000, 100)), Job("tsm-seq-d2", tsm(0, 2), quick=(2, 450, 100), thorough=(16, 3000, 100))]
PROPS["C07"].jobs += [Job("tsm-seq-d3", tsm(0, 3), quick=(2, 600, 100), thorough=(16, 3000, 100))]
PROPS["C06"].jobs += [Job("tsm-seq-d3", tsm(0, 3), quick=(2, 600, 100), thorough=(16, 3000, 100)), Job("tsm-seq-d1", tsm(0, 1), quick=(1, 600, 100), thorough=(16, 3000, 100))]


# ---- C03 (5): a sample of real libgomp schedules (truly parallel): the OpenMP executor linked with the real runtime, differential with the sequential one
def sched_real(dim=3):
    return Bin("t_sched_realomp_d%d" % dim, ["props/t_sched.cpp"], {"DIM": dim, "RT": 1, "NX": 0, "REALOMP": 1}, cxxflags=["-fopenmp"], ldflags=["-fopenmp", "-lpthread"])


PROPS["C03"].jobs += [Job("realomp-d3", sched_real(3), quick=(2, 300, 100), thorough=(8, 2000, 100), env={"OMP_WAIT_POLICY": "passive"})]


# ---- deep trees (cell indices beyond 32 bits) for the structural / lookup / exactly-once properties -----------------------------------------
def deep_jobs(q, t, dims=(3, 2, 1, 4)):
    return [Job("deep-d%d" % d, single(d), quick=(2 if d == 3 else 1, q, 100), thorough=(8, t, 100), args=["--deep", "1"]) for d in dims]


PROPS["C16"].jobs += deep_jobs(150, 1500)
PROPS["C07"].jobs += deep_jobs(150, 1500)
PROPS["C01"].jobs += deep_jobs(100, 1000)
PROPS["C06"].jobs += deep_jobs(100, 1000, dims=(3, 2))
PROPS["C15"].jobs += deep_jobs(100, 1000, dims=(3, 1))

# ---- more result values than data values per particle (Dim 1 / 2 without extra data: 1 resp. 2 data values, 3 result values) ----------------
PROPS["C13"].jobs += [Job("rb-d1-nx0", rebuild(1, nx=0), quick=(2, 450, 100), thorough=(16, 3000, 100)), Job("rb-d2-nx0", rebuild(2, nx=0), quick=(2, 450, 100), thorough=(16, 3000, 100))]
PROPS["C17"].jobs += [Job("rb-d1-nx0", rebuild(1, nx=0), quick=(2, 600, 100), thorough=(16, 3000, 100)), Job("rb-d2-nx0", rebuild(2, nx=0), quick=(1, 600, 100), thorough=(16, 3000, 100)),
                      Job("d1-nx0", single(1, 0), quick=(1, 600, 100), thorough=(16, 3000, 100))]
