#!/usr/bin/env python3
"""Regenerates /verif/MANIFEST.json from the table below (kept next to the plan so that they do not drift)."""
import json, os, sys

VERIF = os.path.dirname(os.path.dirname(os.path.abspath(__file__)))
sys.path.insert(0, os.path.join(VERIF, "harness"))
import plan  # noqa

TRUST = ("Trusted: the reference model harness/model/refmodel.hpp (cross-checked at run time by the FMM partition identity), the probe kernel, "
         "g++ 12 with ASan/UBSan and assertions. Exploration only: no absence proof.")

CLAIMS = {
 "C01": ("property-based testing (rapidcheck) against a definitional reference model with an exactly additive generating-function probe kernel",
         "Seeded random search with shrinking over dimension 1..4, heights, boxes, distributions, block sizes, grouping modes and working levels; every particle value, "
         "every cell multipole/local and the multiset of elementary interactions are compared with an independent model.", "3/C01"),
 "C02": ("property-based testing: per-call argument oracle inside a recording probe kernel (address-identified cells, model leaf membership, documented code conventions)",
         "Every kernel callback of every generated run is checked: particles handed to a leaf lie in it (model), carry their index and bit-identical data; children/sources are the "
         "objects designated by (parent/target, position code, level); separation/adjacency; no empty list.", "3/C02"),
 "C03": ("property-based testing over generated task schedules: mock task runtimes (GOMP ABI, Specx API, StarPU API) own the schedule; differential vs sequential + dependency-conflict check on the recorded DAG + ASan lifetimes",
         "Each generated (tree, thread count, schedule, constructor form) runs the real executor code on a runtime that records the declared dependencies and executes a generated linear extension "
         "(incl. full deferral past the creating frames); results must be bit-identical to the sequential executor, every conflicting access pair ordered/exclusive in the declared DAG for all "
         "extensions at once, and no dead variable read (ASan).", "3/C03"),
 "C04": ("property-based testing of the rotation kernel against an extended-precision direct sum: calibrated error bounds per order, order-pair convergence (per case and campaign median), metamorphic relations (grouping, charge scaling/linearity, power-of-two box scaling)",
         "Generated charged particle sets in cubic boxes, heights 1..6, orders 4/6/8/12, float and double, sequential, OpenMP (mock schedules), target/source and periodic (explicit image sum).", "3/C04"),
 "C05": ("property-based testing of the uniform (Lagrange/FFT) kernel against an extended-precision direct sum: calibrated error bounds per order, order-pair convergence, metamorphic relations incl. regrouping (children delivered in several batches)",
         "Generated charged particle sets, heights 1..6, orders 3/5/8, float and double, sequential, OpenMP (mock schedules), target/source and periodic variants.", "3/C05"),
 "C06": ("property-based testing: construction round trip against the model + byte snapshot metamorphic relation across execution",
         "Each index stored once in the model's leaf with bit-identical data, zero results/expansions, symbolic bytes unchanged by any execution.", "3/C06"),
 "C07": ("property-based testing: structural invariants through public accessors against the model's ancestor closure",
         "Sortedness, disjoint ranges, header/content agreement, parent closure level by level, cell-group/particle-group correspondence, block size bound.", "3/C07"),
 "C08": ("property-based testing: metamorphic relation between two generated groupings (interaction multiset and all values equal, and equal to the model)",
         "Pairs of groupings on the same particles must yield the same multiset of elementary interactions and bit-identical values.", "3/C08"),
 "C09": ("property-based testing of target/source trees against the definitional model (generating-function values, interaction multiset), OpenMP-TSM under mock-runtime schedules",
         "Independent source/target sets incl. degenerate shapes; every target must receive each source exactly once and nothing else; sources untouched; task executor bit-identical under generated schedules.", "3/C09"),
 "C10": ("property-based testing of the periodic four-call sequence with a geometry-sensitive exact kernel against the closed-form image sum over the reported repetition interval",
         "For generated periodic trees and extra levels -1..5 every particle must hold exactly the generating-function value of all images in the reported interval (each once, displaced by whole boxes), "
         "for single and target/source trees, sequential and OpenMP (mock schedules).", "3/C10"),
 "C11": ("bounded-exhaustive enumeration + property-based testing of the index API against definitional coordinates/lists (model-based differential), metamorphic pair property for the upper-half filter",
         "Every cell of small trees exhaustively and random cells up to 60-bit indices: bijection, parent/child/octant, interaction and neighbour lists as multisets with position codes, per-cell and per-group builders with both filters.", "3/C11"),
 "C12": ("property-based testing over generated execute() histories (ordered flag partitions x working level) with per-call write-set and operator oracles",
         "Staged histories must only run the requested operators at working levels, write only their outputs, and end in the state of one full run and of the model.", "3/C12"),
 "C13": ("stateful property-based testing: generated move/rebuild/execute histories against a model of (index, data row, accumulated result) with the structure, construction and value oracles after every step",
         "Histories of in-place position edits, rebuild and execution; identity, data and accumulated results must survive, expansions reset, grouping equal to a fresh build, one more full interaction per execute.", "3/C13"),
 "C14": ("property-based testing: stateful operation sequences on 12 memory-block layouts with address-range/overlap invariants and byte-copy round trips; byte-copied tree groups compared through accessors and operators",
         "Generated layouts, counts around alignment boundaries and op sequences; invariants on every reachable element address; raw views of byte copies must be equivalent for accessors and for kernel operators.", "3/C14"),
 "C15": ("sanitizer-instrumented property-based and schedule-generating campaigns (ASan incl. stack-use-after-return/scope, LSan per case, UBSan, libstdc++ and library assertions, pattern-initialised locals)",
         "The generators of C01/C09/C10/C13 and the schedules of C03 replayed with every dynamic checker available in the image; any report, abort or leak is a violation, shrunk in fork-isolated mode.", "3/C15"),
 "C16": ("property-based testing: lookup results against a definitional Morton model, exhaustive index ranges on small levels",
         "Every index of small levels and generated/present/adjacent/out-of-range indices of large ones: found iff present, position correct, group accessors equal a linear scan.", "3/C16"),
 "C17": ("property-based testing: export arrays against the input rows and the per-particle results read through the leaf iterator",
         "getAllParticlesData/Rhs entry i must equal the data/result of the particle inserted at i, for all generated trees.", "3/C17"),
 "C18": ("property-based testing: counter wrapper differential (results vs unwrapped kernel) and merged counters vs model counts, OpenMP under mock-runtime schedules",
         "Generated trees, thread counts, schedules and merge orders; counts must equal the numbers of elementary interactions implied by the model, results must be unchanged.", "3/C18"),
 "C19": ("generated per-configuration programs (one translation unit per point of the documented template cross product) compiled and then run with embedded property-based oracles",
         "Each configuration must compile and link, and satisfy the embedded structure/construction/exactly-once/rebuild oracles on generated cases; build failure = violation with the compiler log as replay.", "3/C19"),
 "C20": ("property-based testing of FP2PR against an independent extended-precision evaluation of the pairwise law with a stated rounding tolerance; metamorphic mutual = two one-sided",
         "Generated clouds over 12 orders of magnitude of separation and counts around SIMD widths; every output component compared with a long double reference; self term, accumulation into pre-filled arrays, Newton's third law.", "3/C20"),
}

PENDING = "check not built yet in this session (design in DESIGN.md section 3)"


def main():
    props = [json.loads(l)["id"] for l in open(os.path.join(VERIF, "properties.jsonl"))]
    checks, na = [], []
    for p in props:
        if p in CLAIMS and p in plan.PROPS:
            tech, text, ref = CLAIMS[p]
            checks.append({
                "property_id": p,
                "quick_cmd": "./check %s --tier quick" % p,
                "thorough_cmd": "./check %s --tier thorough" % p,
                "evidence_file": "evidence/%s.json" % p,
                "replay_cmd_template": "./check %s --replay {path}" % p,
                "engine": "rapidcheck",
                "technique": tech,
                "level_claimed": {"category": "exploration", "text": text, "design_ref": "DESIGN.md section " + ref},
                "level_note": TRUST,
            })
        else:
            na.append({"property_id": p, "reason": NA.get(p, PENDING)})
    man = {
        "version": 1,
        "setup_cmd": "./check --setup",
        "hooks": {
            "guard": "TBFMM_VERIF",
            "enable": "no hook is needed: every observation goes through public accessors, user kernels and the task-runtime ABI/API boundary; harness binaries are nevertheless compiled with -DTBFMM_VERIF",
            "baseline_off_cmd": "cmake --build /repo/_build && ctest --test-dir /repo/_build -j8 --timeout 900",
            "source_commits": [],
            "add_only": True,
        },
        "engines": [
            {"name": "rapidcheck", "path": "harness/pbt/pbt.cpp", "serves_properties": sorted(CLAIMS), "kind_free_text": "property-based generation + integrated shrinking of FmmCase values; one /repo-independent translation unit"},
            {"name": "libFuzzer", "path": "harness/model/bytes.hpp", "serves_properties": ["C01", "C02", "C06", "C07", "C09", "C10", "C15"], "kind_free_text": "coverage-guided fuzzing (clang++ -fsanitize=fuzzer,address,undefined) of the tree / target-source / periodic targets; structure-aware decode of the bytes into the same FmmCase, same semantic oracles inside the target; seed corpora under corpus/"},
            {"name": "mock task runtimes", "path": "harness/runtimes", "serves_properties": ["C03", "C09", "C10", "C12", "C15", "C18", "C19", "C04", "C05"], "kind_free_text": "GOMP ABI / Specx API / StarPU API mocks that record the submitted tasks and declared dependencies and execute a generated linear extension with generated worker ids"},
            {"name": "driver", "path": "check", "serves_properties": sorted(CLAIMS), "kind_free_text": "python3: rebuilds the needed binaries from /repo's working tree (hash keyed), fans campaigns out over 16 processes, shrinks crashes in fork-isolated mode, replays failures 3x, writes evidence"},
        ],
        "checks": checks,
        "not_applicable": na,
        "notes": "See DESIGN.md. Checks rebuild from /repo's working tree (hash of /repo/src + harness sources selects the build directory under /verif/build). regress/<id>/ holds shrunk cases of repaired defects, replayed first on every run.",
    }
    with open(os.path.join(VERIF, "MANIFEST.json"), "w") as f:
        json.dump(man, f, indent=1)
    print("claimed:", [c["property_id"] for c in checks])
    print("not_applicable:", [n["property_id"] for n in na])


NA = {}

if __name__ == "__main__":
    main()
