#!/usr/bin/env python3
"""Generator reach: which lines of /repo/src do the campaigns execute?  (development aid, not part of any check)
Builds every distinct non-fuzz binary of harness/plan.py with gcov instrumentation (no sanitizer, -O0) in build/cov/, runs the first
job that uses it for a few hundred cases, and merges the per-line execution counts of all headers under /repo/src over all binaries.
Output: build/cov/summary.txt (per file: instrumented lines, executed lines, list of never-executed line ranges).
usage: tools/coverage.py [--cases N] [name-substring ...]"""
import sys, os, subprocess, shutil, json, re, glob
from concurrent.futures import ThreadPoolExecutor
VERIF = os.path.dirname(os.path.dirname(os.path.abspath(__file__)))
sys.path.insert(0, os.path.join(VERIF, "harness"))
import plan
REPO = "/repo"
COV = os.path.join(VERIF, "build", "cov")
FLAGS = ["-std=gnu++17", "-O0", "-g0", "--coverage", "-UNDEBUG", "-DTBFMM_VERIF", "-Wno-deprecated-declarations"]


def main():
    args = sys.argv[1:]
    cases = 300
    if "--cases" in args:
        i = args.index("--cases"); cases = int(args[i + 1]); del args[i:i + 2]
    workers = 8
    if "--workers" in args:
        i = args.index("--workers"); workers = int(args[i + 1]); del args[i:i + 2]
    skip = []
    while "--skip" in args:
        i = args.index("--skip"); skip.append(args[i + 1]); del args[i:i + 2]
    bins = {}
    for prop, m in sorted(plan.PROPS.items()):
        for j in m.jobs:
            if j.bin.fuzz or getattr(j, "probe_only", False):
                continue
            if j.quick[0] == 0:
                continue
            key = j.bin.name
            if args and not any(a in key for a in args):
                continue
            if any(x in key for x in skip):
                continue
            bins.setdefault(key, []).append((prop, j))
    os.makedirs(COV, exist_ok=True)
    pbt = os.path.join(COV, "pbt.o")
    if not os.path.exists(pbt):
        subprocess.check_call(["g++", "-std=gnu++17", "-O1", "-c", os.path.join(VERIF, "harness/pbt/pbt.cpp"), "-o", pbt])

    def build_and_run(name):
        uses = bins[name]
        spec = uses[0][1].bin
        d = os.path.join(COV, name); shutil.rmtree(d, ignore_errors=True); os.makedirs(d)
        objs = []
        for i, src in enumerate(spec.sources):
            obj = os.path.join(d, "s%d.o" % i)
            cmd = ["g++"] + FLAGS + list(spec.cxxflags) + ["-I" + os.path.join(REPO, "src")] + ["-I" + x for x in spec.includes] + \
                  ["-D%s=%s" % kv if kv[1] is not None else "-D%s" % kv[0] for kv in spec.defs.items()] + ["-c", os.path.join(VERIF, "harness", src), "-o", obj]
            r = subprocess.run(cmd, stdout=subprocess.PIPE, stderr=subprocess.STDOUT, text=True)
            if r.returncode != 0:
                return name, "compile failed: " + r.stdout[-300:]
            objs.append(obj)
        exe = os.path.join(d, "exe")
        link = ["g++", "--coverage"] + list(getattr(spec, "ldflags_pre", [])) + objs + ([pbt, "-lrapidcheck"] if spec.needs_pbt else []) + list(spec.ldflags) + ["-o", exe]
        r = subprocess.run(link, stdout=subprocess.PIPE, stderr=subprocess.STDOUT, text=True)
        if r.returncode != 0:
            return name, "link failed: " + r.stdout[-300:]
        # one run per (property, job) that uses this binary: different --prop values take different paths
        seen = set()
        for prop, j in uses:
            k = (prop, tuple(j.args))
            if k in seen:
                continue
            seen.add(k)
            n = 1 if j.quick[1] == 1 else cases
            cmd = [exe, "--prop", prop, "--seed", "12345", "--cases", str(n), "--size", "100", "--out", os.path.join(d, "stats.json"),
                   "--fail", os.path.join(d, "fail.json"), "--cur", os.path.join(d, "cur.json")] + list(j.args)
            env = dict(os.environ); env.update(j.env or {})
            try:
                subprocess.run(cmd, stdout=subprocess.DEVNULL, stderr=subprocess.DEVNULL, env=env, timeout=1200)
            except subprocess.TimeoutExpired:
                pass
        # gcov
        for i, src in enumerate(spec.sources):
            subprocess.run(["gcov", "-p", "-o", os.path.join(d, "s%d.gcno" % i), os.path.join(VERIF, "harness", src)], cwd=d, stdout=subprocess.DEVNULL, stderr=subprocess.DEVNULL)
        for o in objs:
            os.remove(o)
        os.remove(exe)
        return name, "ok"

    with ThreadPoolExecutor(max_workers=workers) as ex:
        for name, res in ex.map(build_and_run, sorted(bins)):
            print("%-50s %s" % (name, res), flush=True)

    # merge
    lines = {}   # file -> {lineno: (instrumented, executed)}
    for g in glob.glob(os.path.join(COV, "*", "*.gcov")):
        src = None
        for l in open(g, errors="replace"):
            parts = l.split(":", 2)
            if len(parts) < 3:
                continue
            cnt, no = parts[0].strip(), parts[1].strip()
            if no == "0":
                if parts[2].startswith("Source:"):
                    src = os.path.normpath(parts[2][len("Source:"):].strip())
                continue
            if not src or not src.startswith(REPO + "/src/"):
                continue
            if cnt == "-":
                continue
            ex = 0 if cnt.startswith("#") or cnt.startswith("=") else 1
            d = lines.setdefault(src, {})
            n = int(no)
            d[n] = max(d.get(n, 0), ex)
    out = []
    tot_i = tot_e = 0
    for f in sorted(lines):
        d = lines[f]
        inst, exe = len(d), sum(d.values())
        tot_i += inst; tot_e += exe
        missing = sorted(n for n, v in d.items() if not v)
        ranges = []
        for n in missing:
            if ranges and n <= ranges[-1][1] + 2:
                ranges[-1][1] = n
            else:
                ranges.append([n, n])
        out.append("%-70s %5d / %5d  %s" % (os.path.relpath(f, REPO), exe, inst, " ".join("%d-%d" % (a, b) if a != b else str(a) for a, b in ranges)))
    out.append("TOTAL %d / %d lines of /repo/src executed" % (tot_e, tot_i))
    open(os.path.join(COV, "summary.txt"), "w").write("\n".join(out) + "\n")
    print("\n".join(out))


if __name__ == "__main__":
    main()
