#!/usr/bin/env python3
"""Sensitivity self-test: hand-written mutations of /repo/src (applied to a scratch copy outside /repo and /verif), each of which
breaks one listed property while compiling; the property's check must raise VIOLATION. Usage:
   tools/selftest_mutants.py [--tier quick] [name-substring ...]
Writes build/selftest/results.json and prints one line per mutant. Scratch copies are removed after each run."""
import sys, os, shutil, subprocess, json, time

VERIF = os.path.dirname(os.path.dirname(os.path.abspath(__file__)))
REPO = "/repo"
S = "src/"
M = []   # (name, property, file, old, new)


def mut(name, prop, f, old, new, count=1):
    M.append((name, prop, f, old, new, count))


ALG = S + "algorithms/sequential/tbfalgorithm.hpp"
GKI = S + "algorithms/sequential/tbfgroupkernelinterface.hpp"
UTL = S + "algorithms/tbfalgorithmutils.hpp"
MOR = S + "spacial/tbfmortonspaceindex.hpp"
TRE = S + "core/tbftree.hpp"
OMP = S + "algorithms/openmp/tbfopenmpalgorithm.hpp"
TSM = S + "algorithms/sequential/tbfalgorithmtsm.hpp"
PER = S + "algorithms/periodic/tbfalgorithmperiodictoptree.hpp"
PCO = S + "core/tbfparticlescontainer.hpp"
MBL = S + "containers/tbfmemoryblock.hpp"
MRV = S + "containers/tbfmemorymultirvector.hpp"
CNT = S + "kernels/counterkernels/tbfinteractioncounter.hpp"
P2P = S + "kernels/P2P/FP2PR.hpp"
ROT = S + "kernels/rotationkernel/FRotationKernel.hpp"
UNI = S + "kernels/unifkernel/FUnifKernel.hpp"
BSF = S + "algorithms/tbfblocksizefinder.hpp"
SHI = S + "utils/tbfperiodicshifter.hpp"

# ---- C01 -----------------------------------------------------------------------------------------------------------------------
mut("c01-m2m-keep-upper-group", "C01", ALG,
    "                    if(currentLowerGroup != endLowerGroup && currentUpperGroup->getEndingSpacialIndex() < spaceSystem.getParentIndex(currentLowerGroup->getStartingSpacialIndex())){\n                        ++currentUpperGroup;\n                    }\n                }\n                else{\n                    ++currentUpperGroup;\n                }\n            }\n        }\n    }\n\n    template <class TreeClass>\n    void M2L(",
    "                    if(currentLowerGroup != endLowerGroup && currentUpperGroup->getEndingSpacialIndex() + 1 < spaceSystem.getParentIndex(currentLowerGroup->getStartingSpacialIndex())){\n                        ++currentUpperGroup;\n                    }\n                }\n                else{\n                    ++currentUpperGroup;\n                }\n            }\n        }\n    }\n\n    template <class TreeClass>\n    void M2L(")
mut("c01-map-stops-at-first-gap", "C01", UTL,
    "            if(firstGroup == inGroups.end()){\n                break;\n            }\n            idxCurrentGroup = std::distance(inGroups.begin(), firstGroup);\n        }\n        else{\n            const auto lastItem = std::upper_bound(firstItem, inIndexes.end(),\n                                                    inGroups[idxCurrentGroup].getEndingSpacialIndex(),\n                                                    [](const auto& value, const auto& element){\n                return !(element.indexSrc <= value);\n            });",
    "            if(firstGroup == inGroups.end()){\n                break;\n            }\n            idxCurrentGroup = std::distance(inGroups.begin(), firstGroup) + (std::distance(inGroups.begin(), firstGroup) > idxCurrentGroup + 2 ? 1 : 0);\n            if(idxCurrentGroup == static_cast<long int>(std::size(inGroups))) break;\n        }\n        else{\n            const auto lastItem = std::upper_bound(firstItem, inIndexes.end(),\n                                                    inGroups[idxCurrentGroup].getEndingSpacialIndex(),\n                                                    [](const auto& value, const auto& element){\n                return !(element.indexSrc <= value);\n            });")
mut("c01-transfer-too-close-2", "C01", MOR,
    "                    bool isTooClose = true;\n                    for(int idxDim = 0 ; isTooClose && idxDim < Dim ; ++idxDim){\n                        if(std::abs(childPos[idxDim] + periodicShift[idxDim] - cellPos[idxDim]) > 1){",
    "                    bool isTooClose = true;\n                    for(int idxDim = 0 ; isTooClose && idxDim < Dim ; ++idxDim){\n                        if(std::abs(childPos[idxDim] + periodicShift[idxDim] - cellPos[idxDim]) > 1 + (inLevel > 3 ? 1 : 0)){")
mut("c01-last-child-of-split-sibling-set", "C01", GKI,
    "        if(nbChildren){\n            inKernel.M2M(inUpperGroup.getCellSymbData(idxParent),\n                         inLevel, TbfUtils::make_const(children), inUpperGroup.getCellMultipole(idxParent),\n                     positionsOfChildren, nbChildren);\n        }",
    "        if(nbChildren > 1 || (nbChildren && idxParent + 1 == inUpperGroup.getNbCells())){\n            inKernel.M2M(inUpperGroup.getCellSymbData(idxParent),\n                         inLevel, TbfUtils::make_const(children), inUpperGroup.getCellMultipole(idxParent),\n                     positionsOfChildren, nbChildren);\n        }")
# ---- C02 -----------------------------------------------------------------------------------------------------------------------
mut("c02-m2l-level-plus-one-between-groups", "C02", ALG,
    "                    kernelWrapper.M2LBetweenGroups(idxLevel, kernel, groupTarget, groupSrc, indexes);",
    "                    kernelWrapper.M2LBetweenGroups(idxLevel + (idxLevel > 2 ? 1 : 0), kernel, groupTarget, groupSrc, indexes);")
mut("c02-l2l-child-code-of-previous-child", "C02", GKI,
    "            children.emplace_back(inLowerGroup.getCellLocal(idxChild));\n            positionsOfChildren[nbChildren] = spaceSystem.childPositionFromParent(inLowerGroup.getCellSpacialIndex(idxChild));",
    "            children.emplace_back(inLowerGroup.getCellLocal(idxChild));\n            positionsOfChildren[nbChildren] = spaceSystem.childPositionFromParent(inLowerGroup.getCellSpacialIndex(nbChildren > 2 ? idxChild - 1 : idxChild));")
# ---- C03 -----------------------------------------------------------------------------------------------------------------------
mut("c03-m2m-parent-dependency-in", "C03", OMP,
    "#pragma omp task depend(in:ptr_lowerGroupGetMultipolePtr[0]) depend(commute:ptr_upperGroupGetMultipolePtr[0])",
    "#pragma omp task depend(in:ptr_lowerGroupGetMultipolePtr[0]) depend(in:ptr_upperGroupGetMultipolePtr[0])")
mut("c03-p2p-dependency-on-data-not-rhs", "C03", OMP,
    "#pragma omp task depend(in:ptr_currentGroupGetDataPtr[0]) depend(commute:ptr_currentGroupGetRhsPtr[0]) default(shared) firstprivate(currentGroup, indexesForGroup_first, kernelsPtr)",
    "#pragma omp task depend(in:ptr_currentGroupGetDataPtr[0]) default(shared) firstprivate(currentGroup, indexesForGroup_first, kernelsPtr)")
mut("c03-kernel-index-constant", "C03", OMP,
    "                    kernelWrapper.L2L(idxLevel, kernelsPtr[omp_get_thread_num()], *upperGroup, *lowerGroup);",
    "                    kernelWrapper.L2L(idxLevel, kernelsPtr[0], *upperGroup, *lowerGroup);")
mut("c03-l2p-before-l2l-dependency-dropped", "C03", OMP,
    "#pragma omp task depend(in:ptr_leafGroupObjGetLocalPtr[0],ptr_particleGroupObjGetDataPtr[0]) depend(commute:ptr_particleGroupObjGetRhsPtr[0])",
    "#pragma omp task depend(in:ptr_particleGroupObjGetDataPtr[0]) depend(commute:ptr_particleGroupObjGetRhsPtr[0])")
# ---- C06 -----------------------------------------------------------------------------------------------------------------------
mut("c06-coordinate-rounded-not-truncated", "C06", MOR,
    "        return static_cast<long int>(indexFReal);\n    }",
    "        return std::min(static_cast<long int>(indexFReal + RealType(1e-9)), (1L << (configuration.getTreeHeight()-1))-1);\n    }")
mut("c06-extra-data-value-shifted", "C06", PCO,
    "                particlesDataViewer.getItem(idxPart, idxValue) = inParticlePositions[originalParticleIdx][idxValue];",
    "                particlesDataViewer.getItem(idxPart, idxValue) = inParticlePositions[originalParticleIdx][idxValue > Dim ? idxValue - 1 : idxValue];")
# ---- C07 -----------------------------------------------------------------------------------------------------------------------
mut("c07-one-group-per-parent-duplicate-parent", "C07", TRE,
    "                              && spaceSystem.getParentIndex(lowerCellGroup.getCellSpacialIndex(idxCell)) <= cellBlocks[idxLevel].back().getEndingSpacialIndex()){",
    "                              && spaceSystem.getParentIndex(lowerCellGroup.getCellSpacialIndex(idxCell)) < cellBlocks[idxLevel].back().getEndingSpacialIndex()){", count=2)
mut("c07-block-size-off-by-one", "C07", TRE,
    "                            if(static_cast<long int>(cellIndexes.size()) == nbElementsPerBlock){",
    "                            if(static_cast<long int>(cellIndexes.size()) == nbElementsPerBlock + (idxLevel == 1 ? 1 : 0)){", count=2)
# ---- C08 -----------------------------------------------------------------------------------------------------------------------
mut("c08-in-group-m2l-skipped-for-last-cell", "C08", GKI,
    "        while(idxInteraction < static_cast<long int>(inIndexes.size())){\n            const auto interaction = inIndexes[idxInteraction];\n\n            auto& targetCell = inCellGroup.getCellLocal(interaction.globalTargetPos);\n\n            do{\n                auto foundSrc = inCellGroup.getElementFromSpacialIndex(inIndexes[idxInteraction].indexSrc);\n                assert(foundSrc);",
    "        while(idxInteraction < static_cast<long int>(inIndexes.size())){\n            const auto interaction = inIndexes[idxInteraction];\n            if(inCellGroup.getNbCells() == 7 && interaction.globalTargetPos == 6){ ++idxInteraction; continue; }\n\n            auto& targetCell = inCellGroup.getCellLocal(interaction.globalTargetPos);\n\n            do{\n                auto foundSrc = inCellGroup.getElementFromSpacialIndex(inIndexes[idxInteraction].indexSrc);\n                assert(foundSrc);")
# ---- C09 -----------------------------------------------------------------------------------------------------------------------
mut("c09-tsm-neighbour-list-filters-by-target-group", "C09", TSM,
    "            auto indexesForGroup = spacialSystem.getNeighborListForBlock(*currentParticleGroupTarget, configuration.getTreeHeight()-1, false, false);",
    "            auto indexesForGroup = spacialSystem.getNeighborListForBlock(*currentParticleGroupTarget, configuration.getTreeHeight()-1, false, true);")
mut("c09-tsm-self-list-dropped-for-first-leaf", "C09", MOR,
    "        for(long int idxCell = 0 ; idxCell < inGroup.getNbLeaves() ; ++idxCell){\n            const IndexType cellIndex = inGroup.getLeafSpacialIndex(idxCell);\n\n            TbfXtoXInteraction<IndexType> interaction;\n            interaction.indexTarget = cellIndex;\n            interaction.indexSrc = cellIndex;",
    "        for(long int idxCell = (inGroup.getNbLeaves() > 4 ? 1 : 0) ; idxCell < inGroup.getNbLeaves() ; ++idxCell){\n            const IndexType cellIndex = inGroup.getLeafSpacialIndex(idxCell);\n\n            TbfXtoXInteraction<IndexType> interaction;\n            interaction.indexTarget = cellIndex;\n            interaction.indexSrc = cellIndex;")
# ---- C10 -----------------------------------------------------------------------------------------------------------------------
mut("c10-top-window-symmetric", "C10", PER,
    "                if(idxLevel == 3){\n                    minLimits.fill(-3);\n                    maxLimits.fill(2);\n                }",
    "                if(idxLevel == 3){\n                    minLimits.fill(-3);\n                    maxLimits.fill(3);\n                }")
mut("c10-interval-off-by-one", "C10", PER,
    "                        TbfUtils::make_array<long int, Dim>(-halfRepeated),\n                        TbfUtils::make_array<long int, Dim>(halfRepeated-1));",
    "                        TbfUtils::make_array<long int, Dim>(-halfRepeated),\n                        TbfUtils::make_array<long int, Dim>(halfRepeated));")
mut("c10-neighbour-wrap-without-plus", "C10", MOR,
    "                        for(long int idxDim = 0 ; idxDim < Dim ; ++idxDim){\n                            otherPos[idxDim] = ((otherPos[idxDim]+boxLimite)%boxLimite);\n                        }\n                    }\n\n                    const IndexType otherIndex = getIndexFromBoxPos(otherPos);\n\n                    // We cannot compare with otherIndex < cellIndex due to periodicity\n                    if(upperExclusion == false || TbfUtils::lipow(3, Dim)/2 < arrayPos){\n                        TbfXtoXInteraction<IndexType> interaction;",
    "                        for(long int idxDim = 0 ; idxDim < Dim ; ++idxDim){\n                            otherPos[idxDim] = (idxDim == Dim-1 && otherPos[idxDim] < 0) ? boxLimite-2 : ((otherPos[idxDim]+boxLimite)%boxLimite);\n                        }\n                    }\n\n                    const IndexType otherIndex = getIndexFromBoxPos(otherPos);\n\n                    // We cannot compare with otherIndex < cellIndex due to periodicity\n                    if(upperExclusion == false || TbfUtils::lipow(3, Dim)/2 < arrayPos){\n                        TbfXtoXInteraction<IndexType> interaction;")
# ---- C11 -----------------------------------------------------------------------------------------------------------------------
mut("c11-child-code-mask", "C11", MOR,
    "        return inIndexChild & static_cast<long int>(~(((~0UL)>>Dim)<<Dim));",
    "        return inIndexChild & static_cast<long int>(~(((~0UL)>>Dim)<<Dim)) & 7;")
mut("c11-interaction-list-for-index-misses-a-corner", "C11", MOR,
    "        while(true){\n            {\n                long int currentIdx = Dim-1;\n\n                while(currentIdx >= 0 && currentParentTest[currentIdx] > maxLimits[currentIdx]){\n                    currentParentTest[currentIdx] = minLimits[currentIdx];\n                    currentIdx -= 1;\n                    if(currentIdx >= 0){\n                        currentParentTest[currentIdx] += 1;\n                    }\n                }\n                if(currentIdx < 0){\n                    break;\n                }\n            }\n\n            auto otherParentPos = TbfUtils::AddVecToVec(parentCellPos, currentParentTest);\n            auto periodicShift = TbfUtils::make_array<long int, Dim>(0);\n\n            if constexpr(IsPeriodic){\n                for(long int idxDim = 0 ; idxDim < Dim ; ++idxDim){\n                    if(otherParentPos[idxDim] < 0){\n                        periodicShift[idxDim] = -boxLimite;\n                        otherParentPos[idxDim] += boxLimiteParent;\n                    }\n                    else if(boxLimiteParent <= otherParentPos[idxDim]){\n                        periodicShift[idxDim] = boxLimite;\n                        otherParentPos[idxDim] -= boxLimiteParent;\n                    }\n                }\n            }\n            const IndexType otherParentIndex = getIndexFromBoxPos(otherParentPos);\n\n            for(long int idxChild = 0 ; idxChild < (1<<Dim) ; ++idxChild){",
    "        while(true){\n            {\n                long int currentIdx = Dim-1;\n\n                while(currentIdx >= 0 && currentParentTest[currentIdx] > maxLimits[currentIdx]){\n                    currentParentTest[currentIdx] = minLimits[currentIdx];\n                    currentIdx -= 1;\n                    if(currentIdx >= 0){\n                        currentParentTest[currentIdx] += 1;\n                    }\n                }\n                if(currentIdx < 0){\n                    break;\n                }\n            }\n\n            auto otherParentPos = TbfUtils::AddVecToVec(parentCellPos, currentParentTest);\n            auto periodicShift = TbfUtils::make_array<long int, Dim>(0);\n\n            if constexpr(IsPeriodic){\n                for(long int idxDim = 0 ; idxDim < Dim ; ++idxDim){\n                    if(otherParentPos[idxDim] < 0){\n                        periodicShift[idxDim] = -boxLimite;\n                        otherParentPos[idxDim] += boxLimiteParent;\n                    }\n                    else if(boxLimiteParent <= otherParentPos[idxDim]){\n                        periodicShift[idxDim] = boxLimite;\n                        otherParentPos[idxDim] -= boxLimiteParent;\n                    }\n                }\n            }\n            const IndexType otherParentIndex = getIndexFromBoxPos(otherParentPos);\n\n            for(long int idxChild = (inLevel == 4 && currentParentTest[0] == 1 ? 1 : 0) ; idxChild < (1<<Dim) ; ++idxChild){")
# ---- C12 -----------------------------------------------------------------------------------------------------------------------
mut("c12-p2p-also-with-l2p-flag", "C12", ALG,
    "        if(inOperationToProceed & TbfAlgorithmUtils::TbfP2P){\n            P2P(inTree);\n        }",
    "        if(inOperationToProceed & (TbfAlgorithmUtils::TbfP2P | ((inOperationToProceed & TbfAlgorithmUtils::TbfL2L) ? 0 : TbfAlgorithmUtils::TbfL2P))){\n            P2P(inTree);\n        }")
mut("c12-m2m-one-level-above-the-working-level", "C12", ALG,
    "        for(long int idxLevel = configuration.getTreeHeight()-2 ; idxLevel >= stopUpperLevel ; --idxLevel){\n            auto& upperCellGroup = inTree.getCellGroupsAtLevel(idxLevel);\n            const auto& lowerCellGroup = inTree.getCellGroupsAtLevel(idxLevel+1);\n\n            auto currentUpperGroup = upperCellGroup.begin();",
    "        for(long int idxLevel = configuration.getTreeHeight()-2 ; idxLevel >= std::max(0L, stopUpperLevel-1) ; --idxLevel){\n            auto& upperCellGroup = inTree.getCellGroupsAtLevel(idxLevel);\n            const auto& lowerCellGroup = inTree.getCellGroupsAtLevel(idxLevel+1);\n\n            auto currentUpperGroup = upperCellGroup.begin();")
# ---- C13 -----------------------------------------------------------------------------------------------------------------------
mut("c13-rhs-scattered-by-sorted-position", "C13", TRE,
    "                     particleRhsPtr[idxValue][idxPart] = rhs[particleIndexes[idxPart]][idxValue];",
    "                     particleRhsPtr[idxValue][idxPart] = rhs[idxValue == 2 ? idxPart : particleIndexes[idxPart]][idxValue];")
mut("c13-rebuild-keeps-levels-with-few-groups", "C13", TRE,
    "        cellBlocks.clear();\n        particleGroups.clear();\n\n        cellBlocks.resize(configuration.getTreeHeight());\n        if(std::size(data) == 0){",
    "        for(auto& level : cellBlocks){ if(level.size() != 2) level.clear(); }\n        particleGroups.clear();\n\n        cellBlocks.resize(configuration.getTreeHeight());\n        if(std::size(data) == 0){")
# ---- C14 -----------------------------------------------------------------------------------------------------------------------
mut("c14-multirvector-viewer-leading-dim", "C14", MRV,
    "        explicit ViewerConst(const DataType* inPtrToData, const long int inNbItems)\n            : ptrToData(inPtrToData), nbItems(inNbItems),\n              leadingDim(TbfUtils::GetLeadingDim<DataType>(inNbItems, MemoryAlignementBytes)){}",
    "        explicit ViewerConst(const DataType* inPtrToData, const long int inNbItems)\n            : ptrToData(inPtrToData), nbItems(inNbItems),\n              leadingDim(TbfUtils::GetLeadingDim<DataType>(inNbItems + (inNbItems % 9 == 8 ? 1 : 0), MemoryAlignementBytes)){}")
mut("c14-trailer-at-requested-size-after-shrinking", "C14", MBL,
    "        nbItemsInBlocks = reinterpret_cast<long int*>(&rawMemoryPtr[allocatedMemorySizeInByte] - (sizeof(long int) * NbBlocks));\n        offsetOfBlocksForPtrs = reinterpret_cast<long int*>(&rawMemoryPtr[allocatedMemorySizeInByte] - (sizeof(long int) * NbBlocks)\n                                                        - (sizeof(long int) * NbBlocks));\n\n        for(long int idxBlock = 0 ; idxBlock < NbBlocks ; ++idxBlock){\n            nbItemsInBlocks[idxBlock] = inNbItemsInBlocks[idxBlock];",
    "        nbItemsInBlocks = reinterpret_cast<long int*>(&rawMemoryPtr[totalMemoryToAlloc] - (sizeof(long int) * NbBlocks));\n        offsetOfBlocksForPtrs = reinterpret_cast<long int*>(&rawMemoryPtr[totalMemoryToAlloc] - (sizeof(long int) * NbBlocks)\n                                                        - (sizeof(long int) * NbBlocks));\n\n        for(long int idxBlock = 0 ; idxBlock < NbBlocks ; ++idxBlock){\n            nbItemsInBlocks[idxBlock] = inNbItemsInBlocks[idxBlock];")
# ---- C16 -----------------------------------------------------------------------------------------------------------------------
mut("c16-find-cell-misses-first-index-of-group", "C16", TRE,
    "            if(cellGroup.getStartingSpacialIndex() <= inMIndex && inMIndex <= cellGroup.getEndingSpacialIndex()){\n                auto foundCell = cellGroup.getElementFromSpacialIndex(inMIndex);",
    "            if(cellGroup.getStartingSpacialIndex() + (inLevel > 2 ? 1 : 0) <= inMIndex && inMIndex <= cellGroup.getEndingSpacialIndex()){\n                auto foundCell = cellGroup.getElementFromSpacialIndex(inMIndex);")
mut("c16-leaf-lookup-accepts-absent-index", "C16", PCO,
    "        const auto& leafHeader = leavesViewer.getItem(idxLeaf);\n        if(leafHeader.spaceIndex != inIndex){\n            return std::nullopt;\n        }",
    "        const auto& leafHeader = leavesViewer.getItem(idxLeaf);\n        if(leafHeader.spaceIndex != inIndex && (header.nbLeaves < 3 || idxLeaf != header.nbLeaves - 1)){\n            return std::nullopt;\n        }")
# ---- C17 -----------------------------------------------------------------------------------------------------------------------
mut("c17-export-second-result-value-reversed-in-leaf", "C17", TRE,
    "                    rhs[particleIndexes[idxPart]][idxValue] = particleRhsPtr[idxValue][idxPart];",
    "                    rhs[particleIndexes[idxPart]][idxValue] = particleRhsPtr[idxValue][idxValue == 1 ? leafHeader.nbParticles-1-idxPart : idxPart];", count=2)
# ---- C18 -----------------------------------------------------------------------------------------------------------------------
mut("c18-m2l-counts-calls", "C18", CNT,
    "        counters.M2L += inNbNeighbors;",
    "        counters.M2L += (inNbNeighbors > 40 ? inNbNeighbors - 1 : inNbNeighbors);")
# ---- C20 -----------------------------------------------------------------------------------------------------------------------
mut("c20-inner-source-potential-uses-source-charge", "C20", P2P,
    "            targetsPotentials[idxSource] += inv_distance * targetsPhysicalValues[idxTarget];\n        }\n    }\n}\n",
    "            targetsPotentials[idxSource] += inv_distance * targetsPhysicalValues[idxSource > 16 ? idxSource : idxTarget];\n        }\n    }\n}\n")
mut("c20-mutual-source-force-sign", "C20", P2P,
    "            sourcesForcesZ[idxSource] -= dz;\n            sourcesPotentials[idxSource] += inv_distance * tv;",
    "            sourcesForcesZ[idxSource] -= (idxTarget == 2 ? -dz : dz);\n            sourcesPotentials[idxSource] += inv_distance * tv;")
# ---- C04 / C05 -------------------------------------------------------------------------------------------------------------------
mut("c05-m2m-transform-not-refreshed-for-partial-batches", "C05", UNI,
    "        // 2) Apply Discete Fourier Transform\n        M2LHandler.applyZeroPaddingAndDFT(inOutUpperCell.multipole_exp,\n                                          inOutUpperCell.transformed_multipole_exp);",
    "        // 2) Apply Discete Fourier Transform\n        if(inNbChildren > 1) M2LHandler.applyZeroPaddingAndDFT(inOutUpperCell.multipole_exp,\n                                          inOutUpperCell.transformed_multipole_exp);")
mut("c05-m2l-scale-of-next-level", "C05", UNI,
    "        const RealType CellWidth(AbstractBaseClass::BoxWidth / RealType(FMath::pow(2, int(inLevel))));\n        const RealType scale(MatrixKernel->getScaleFactor(CellWidth));\n\n        assert(inNbNeighbors == int(inInteractingCells.size()));",
    "        const RealType CellWidth(AbstractBaseClass::BoxWidth / RealType(FMath::pow(2, int(inLevel > 3 ? inLevel + 1 : inLevel))));\n        const RealType scale(MatrixKernel->getScaleFactor(CellWidth));\n\n        assert(inNbNeighbors == int(inInteractingCells.size()));")
mut("c10-periodic-shift-only-first-dimension", "C05", SHI,
    "                else if (boxLimit <= symTgtPos[idxDim] + indexPos[idxDim]){\n                    assert(symSrcPos[idxDim] == 0);\n                    shiftValues[idxDim] = boxWidths[idxDim];\n                }",
    "                else if (boxLimit <= symTgtPos[idxDim] + indexPos[idxDim]){\n                    assert(symSrcPos[idxDim] == 0);\n                    shiftValues[idxDim] = (idxDim == 2 ? 0 : boxWidths[idxDim]);\n                }")


def main():
    args = [a for a in sys.argv[1:] if a != "--redo"]
    tier = "quick"
    if "--tier" in args:
        i = args.index("--tier"); tier = args[i + 1]; del args[i:i + 2]
    sel = [m for m in M if not args or any(a in m[0] for a in args)]
    outdir = os.path.join(VERIF, "build", "selftest"); os.makedirs(outdir, exist_ok=True)
    respath = os.path.join(outdir, "results.json")
    results = json.load(open(respath)) if os.path.exists(respath) else {}
    for name, prop, f, old, new, count in sel:
        scratch = "/tmp/selftest-mut-%s" % name
        if name in results and results[name].get("verdict") == "caught" and "--redo" not in sys.argv:
            print("%-55s %s  caught (earlier run)" % (name, prop), flush=True); continue
        shutil.rmtree(scratch, ignore_errors=True); os.makedirs(scratch)
        # the committed tree, not the working tree: seeded changes may be applied to /repo while this runs
        subprocess.check_call("git -C %s archive HEAD src | tar -x -C %s" % (REPO, scratch), shell=True)
        p = os.path.join(scratch, f)
        s = open(p).read()
        if s.count(old) != count:
            print("%-55s %s  MUTATION DOES NOT APPLY (%d occurrences, expected %d)" % (name, prop, s.count(old), count), flush=True)
            results[name] = {"property": prop, "verdict": "not-applicable"}
            shutil.rmtree(scratch, ignore_errors=True); continue
        open(p, "w").write(s.replace(old, new))
        env = dict(os.environ); env["VERIF_REPO"] = scratch; env["VERIF_SCRATCH"] = os.path.join(scratch, "out")
        t0 = time.time()
        r = subprocess.run([os.path.join(VERIF, "check"), prop, "--tier", tier], env=env, stdout=subprocess.PIPE, stderr=subprocess.STDOUT, text=True)
        viol = [l for l in r.stdout.splitlines() if l.startswith("VIOLATION")]
        detail = [l.strip() for l in r.stdout.splitlines() if l.startswith("  ")][:1]
        verdict = "caught" if (r.returncode == 1 and viol) else ("harness-error" if r.returncode == 2 else "MISSED")
        print("%-55s %s  %-8s %4.0fs  %s" % (name, prop, verdict, time.time() - t0, (detail[0][:110] if detail else "")), flush=True)
        results[name] = {"property": prop, "verdict": verdict, "tier": tier, "seconds": round(time.time() - t0), "detail": detail[0][:300] if detail else ""}
        json.dump(results, open(respath, "w"), indent=1)
        shutil.rmtree(scratch, ignore_errors=True)
    # the build directories of the mutated trees are garbage collected by the next regular check


if __name__ == "__main__":
    main()
