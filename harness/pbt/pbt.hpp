// Interface between the property binaries and the rapidcheck-based generator/shrinker.
// The implementation (pbt.cpp) is the only translation unit that includes rapidcheck; it does not
// depend on /repo and is built once.
#ifndef VERIF_PBT_HPP
#define VERIF_PBT_HPP

#include "../model/fmmcase.hpp"
#include <functional>
#include <string>

namespace pbt {

struct GenCfg {
    int dim = 3;
    int real = 0;              // 0 double, 1 float
    int minH = 1, maxH = 5;
    int maxN = 200;
    bool tsm = false;
    bool periodic = false;     // generate extraLevels in [-1, maxExtraLevels], minH forced >= 2
    int maxExtraLevels = 3;
    int maxNextra = 0;         // extra data values per particle
    bool cubic = false;        // same width in every dimension (numerical kernels)
    bool genericBoxes = true;  // allow non dyadic boxes
    bool autoBlock = true;     // allow automatic / environment block size
    bool twoGroupings = false; // C08
    bool ulpFacesGeneric = false; // numerical kernels: particles 1-3 ulps inside a cell face of a generic (non dyadic) box near the origin
    bool emptySets = false;    // one case in 40 has an empty particle set (target/source: either or both sides)
    bool histories = false;    // C12
    int historyOneIn = 1;      // with histories: a staged history for one case in N, a single full call otherwise
    bool lstops = false;       // generate upper working level 0..H
    bool schedules = false;    // C03
    int executors = 1;         // bit mask of allowed executors (bit0 sequential, bit1 openmp, bit2 specx, bit3 starpu)
    int maxThreads = 16;
    bool varyThreads = true;   // with schedules: the worker count may differ between construction of the executor and execute()
    bool cycles = false;       // C13 move/rebuild histories
    int maxCycles = 4;
    bool queries = false;      // C16
    bool charges = false;      // numerical kernels: signed charges
    bool noCoincident = false; // numerical kernels: no two particles at the same position
    bool interiorOnly = false; // keep particles away from cell faces/centres/axes (numerical known findings)
    bool noCentre = false;     // no coordinate equal to the centre coordinate of its leaf (rotation kernel known findings F-ROT-CENTRE / F-ROT-AXIS)
    bool exactFacesOnly = false; // particles exactly on a cell/box face only when the box is dyadic (exact arithmetic), see F-UNIF-ROOTS-ASSERT
    int widthDecades = 6;      // box widths span 10^-d .. 10^d (dyadic boxes 2^-d .. 2^d)
    int variants = 1;          // c.variant drawn in [0, variants)
};

// Returns "" if the property holds on the case, a text starting with "SKIP" to discard it,
// anything else is a failure message.
using Prop = std::function<std::string(const FmmCase&)>;

struct RunResult {
    bool ok = true;
    long executed = 0;         // property invocations during the generation phase (not shrinking)
    long shrinkSteps = 0;
    FmmCase failing;           // minimal failing case (valid if !ok)
    std::string message;
};

// seed/cases/maxSize pin the campaign; everything random comes from rapidcheck.
RunResult run(const std::string& name, const GenCfg& cfg, const Prop& prop,
              unsigned long seed, int cases, int maxSize);

} // namespace pbt

#endif
