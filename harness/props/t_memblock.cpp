// Property binary: TbfMemoryBlock and its sub-block kinds (C14, container part).
// A case = (variant -> layout of the compiled menu, queries -> item counts and operation stream).
#include "tbfglobal.hpp"
#include "utils/tbfutils.hpp"
#include "containers/tbfmemoryblock.hpp"
#include "containers/tbfmemoryscalar.hpp"
#include "containers/tbfmemoryvector.hpp"
#include "containers/tbfmemorymultirvector.hpp"
#include "containers/tbfmemorymultivvector.hpp"

#include "../model/gf.hpp"
#include "common.hpp"

#include <cstring>
#include <cstdint>
#include <sstream>
#include <tuple>
#include <memory>

namespace {

template <int N> struct Bytes { unsigned char c[N]; };
using E1 = unsigned char; using E2 = uint16_t; using E3 = Bytes<3>; using E8 = double; using E24 = Bytes<24>;
using E64 = Bytes<64>; using E100 = Bytes<100>; using E128 = Bytes<128>; using E4096 = Bytes<4096>;

// ---- kind traits (from the public typedefs of the sub-block classes)
template <class B> struct Kind;
template <class T, long A> struct Kind<TbfMemoryScalar<T, A>> { static constexpr int kind = 0; static constexpr long rows = 1; using Elem = T; };
template <class T, long A> struct Kind<TbfMemoryVector<T, A>> { static constexpr int kind = 1; static constexpr long rows = 1; using Elem = T; };
template <class T, long R, long A> struct Kind<TbfMemoryMultiRVector<T, R, A>> { static constexpr int kind = 2; static constexpr long rows = R; using Elem = T; };
template <class T, long R, long A> struct Kind<TbfMemoryMultiVVector<T, R, A>> { static constexpr int kind = 3; static constexpr long rows = R; using Elem = T; };

template <class T> void setPattern(T& e, uint64_t tag){
    unsigned char* p = reinterpret_cast<unsigned char*>(&e);
    for(size_t i = 0 ; i < sizeof(T) ; ++i) p[i] = (unsigned char)(gf::splitmix(tag * 131 + i) & 0xFF);
}
template <> void setPattern<double>(double& e, uint64_t tag){ e = double(int64_t(gf::splitmix(tag) % 2000001) - 1000000) / 7.0; }
template <class T> bool hasPattern(const T& e, uint64_t tag){ T x; std::memset(&x, 0, sizeof x); setPattern(x, tag); return std::memcmp(&x, &e, sizeof(T)) == 0; }
template <class T> bool isZero(const T& e){ const unsigned char* p = reinterpret_cast<const unsigned char*>(&e); for(size_t i = 0 ; i < sizeof(T) ; ++i) if(p[i]) return false; return true; }

struct Range { const unsigned char* lo; const unsigned char* hi; };

// visits every element of sub-block K through its viewer: fn(element reference, linear id)
template <long K, class Block, class SubBlock, class Fn>
void forEachViewer(Block& blk, long n, Fn&& fn){
    auto v = blk.template getViewerForBlock<K>();
    if constexpr(Kind<SubBlock>::kind == 0){ fn(v.getItem(), 0L); }
    else if constexpr(Kind<SubBlock>::kind == 1){ for(long i = 0 ; i < n ; ++i) fn(v.getItem(i), i); }
    else { for(long i = 0 ; i < n ; ++i) for(long r = 0 ; r < Kind<SubBlock>::rows ; ++r) fn(v.getItem(i, r), i * Kind<SubBlock>::rows + r); }
}
template <long K, class Block, class SubBlock, class Fn>
void forEachViewerConst(const Block& blk, long n, Fn&& fn){
    auto v = blk.template getViewerForBlockConst<K>();
    if constexpr(Kind<SubBlock>::kind == 0){ fn(v.getItem(), 0L); }
    else if constexpr(Kind<SubBlock>::kind == 1){ for(long i = 0 ; i < n ; ++i) fn(v.getItem(i), i); }
    else { for(long i = 0 ; i < n ; ++i) for(long r = 0 ; r < Kind<SubBlock>::rows ; ++r) fn(v.getItem(i, r), i * Kind<SubBlock>::rows + r); }
}

template <class... Subs>
struct Layout {
    using Block = TbfMemoryBlock<Subs...>;
    static constexpr long NB = sizeof...(Subs);
    using Tuple = std::tuple<Subs...>;

    template <long K> using Sub = typename std::tuple_element<K, Tuple>::type;

    static long expectedElements(const std::array<long, NB>& sizes){
        long tot = 0; long k = 0;
        ((tot += (Kind<Subs>::kind == 0 ? 1 : sizes[size_t(k)] * Kind<Subs>::rows), ++k), ...);
        return tot;
    }

    // --- oracle (1)+(2): accessors stay inside their sub-block's range derived from the trailer, ranges are disjoint
    //     and below the trailer, elements do not overlap; values written through the viewers are read back through
    //     the const viewers and through applyToAllElements
    template <long K>
    static void checkSub(Block& blk, const std::array<long, NB>& sizes, uint64_t salt, bool write, bool expectZero, std::string& err,
                         std::vector<Range>& elemRanges, const std::vector<Range>& subRanges){
        if(!err.empty()) return;
        using S = Sub<K>;
        using Elem = typename Kind<S>::Elem;
        const long n = sizes[size_t(K)];
        forEachViewer<K, Block, S>(blk, n, [&](Elem& e, long id){
            if(!err.empty()) return;
            const unsigned char* a = reinterpret_cast<const unsigned char*>(&e);
            if(a < subRanges[size_t(K)].lo || a + sizeof(Elem) > subRanges[size_t(K)].hi){
                std::ostringstream os; os << "element " << id << " of sub-block " << K << " lies outside the range the trailer gives to that sub-block"; err = os.str(); return; }
            if(reinterpret_cast<uintptr_t>(a) % alignof(Elem) != 0){ err = "misaligned element in sub-block " + std::to_string(K); return; }
            elemRanges.push_back(Range{a, a + sizeof(Elem)});
            if(expectZero && !isZero(e)){ err = "element of a freshly sized block is not zero (sub-block " + std::to_string(K) + ")"; return; }
            if(write) setPattern(e, salt * 1000003u + uint64_t(K) * 100000007u + uint64_t(id));
        });
        if(!err.empty()) return;
        long seen = 0;
        forEachViewerConst<K, Block, S>(blk, n, [&](const Elem& e, long id){
            if(!err.empty()) return;
            seen += 1;
            if(write && !hasPattern(e, salt * 1000003u + uint64_t(K) * 100000007u + uint64_t(id))) err = "value written through the viewer is not read back through the const viewer (sub-block " + std::to_string(K) + ", element " + std::to_string(id) + ")";
        });
    }
    template <std::size_t... I>
    static void checkAllSubs(Block& blk, const std::array<long, NB>& sizes, uint64_t salt, bool write, bool expectZero, std::string& err,
                             std::vector<Range>& elemRanges, const std::vector<Range>& subRanges, std::index_sequence<I...>){
        (checkSub<long(I)>(blk, sizes, salt, write, expectZero, err, elemRanges, subRanges), ...);
    }
    template <long K>
    static void verifySub(const Block& blk, const std::array<long, NB>& sizes, uint64_t salt, std::string& err, const char* what){
        if(!err.empty()) return;
        using S = Sub<K>; using Elem = typename Kind<S>::Elem;
        forEachViewerConst<K, Block, S>(blk, sizes[size_t(K)], [&](const Elem& e, long id){
            if(err.empty() && !hasPattern(e, salt * 1000003u + uint64_t(K) * 100000007u + uint64_t(id))) err = std::string(what) + ": element " + std::to_string(id) + " of sub-block " + std::to_string(K) + " differs from the original";
        });
    }
    template <std::size_t... I>
    static void verifyAll(const Block& blk, const std::array<long, NB>& sizes, uint64_t salt, std::string& err, const char* what, std::index_sequence<I...>){
        (verifySub<long(I)>(blk, sizes, salt, err, what), ...);
    }

    static std::string checkState(Block& blk, const std::array<long, NB>& sizes, uint64_t salt, bool expectZero){
        std::string err;
        const unsigned char* raw = blk.getPtr();
        const long alloc = blk.getAllocatedMemorySizeInByte();
        if(raw == nullptr) return "block has no buffer";
        if(alloc < long(2 * NB * sizeof(long))) return "allocation smaller than the trailer";
        // the documented self-description: item counts in the last NB longs, offsets in the NB longs before them
        const long* counts = reinterpret_cast<const long*>(raw + alloc - NB * sizeof(long));
        const long* offsets = reinterpret_cast<const long*>(raw + alloc - 2 * NB * sizeof(long));
        const unsigned char* trailer = raw + alloc - 2 * NB * sizeof(long);
        std::vector<Range> subRanges;
        for(long k = 0 ; k < NB ; ++k){
            if(counts[k] != sizes[size_t(k)]) return "trailer item count of sub-block " + std::to_string(k) + " is " + std::to_string(counts[k]) + ", expected " + std::to_string(sizes[size_t(k)]);
            const long hiOff = (k + 1 < NB) ? offsets[k + 1] : long(trailer - raw);
            if(offsets[k] < 0 || offsets[k] > hiOff || hiOff > long(trailer - raw)) return "trailer offsets are not ascending below the trailer";
            subRanges.push_back(Range{raw + offsets[k], raw + hiOff});
        }
        if(expectZero){
            // "memset of every freshly sized block": everything below the trailer area in use is zero
            for(const unsigned char* p = raw ; p < subRanges.back().hi && p < raw + offsets[NB - 1] ; ++p) if(*p){ return "freshly sized block holds a non zero byte"; }
        }
        std::vector<Range> elems;
        checkAllSubs(blk, sizes, salt, true, expectZero, err, elems, subRanges, std::make_index_sequence<NB>());
        if(!err.empty()) return err;
        std::sort(elems.begin(), elems.end(), [](const Range& a, const Range& b){ return a.lo < b.lo; });
        for(size_t i = 1 ; i < elems.size() ; ++i) if(elems[i].lo < elems[i - 1].hi) return "two elements overlap in memory";
        if(long(elems.size()) != expectedElements(sizes)) return "viewers reach " + std::to_string(elems.size()) + " elements, layout has " + std::to_string(expectedElements(sizes));
        // applyToAllElements reaches exactly the same elements
        std::vector<const unsigned char*> viaApply;
        blk.applyToAllElements([&](auto& e){ viaApply.push_back(reinterpret_cast<const unsigned char*>(&e)); });
        std::sort(viaApply.begin(), viaApply.end());
        if(viaApply.size() != elems.size()) return "applyToAllElements visits " + std::to_string(viaApply.size()) + " elements, the viewers " + std::to_string(elems.size());
        for(size_t i = 0 ; i < elems.size() ; ++i) if(viaApply[i] != elems[i].lo) return "applyToAllElements and the viewers do not address the same elements";
        long nbConst = 0; blk.applyToAllElementsConst([&](const auto&){ nbConst += 1; });
        if(nbConst != long(elems.size())) return "applyToAllElementsConst visits a different number of elements";
        return "";
    }

    // --- oracle (3): a byte copy viewed through the raw-memory constructor is an equivalent view
    static std::string checkByteCopy(Block& blk, const std::array<long, NB>& sizes, uint64_t salt, long misalign){
        const long alloc = blk.getAllocatedMemorySizeInByte();
        std::vector<unsigned char> storage(size_t(alloc) + 128);
        unsigned char* p = storage.data();
        while(reinterpret_cast<uintptr_t>(p) % 64) ++p;
        p += 16 * (misalign % 4);      // 16-byte aligned, not necessarily 64
        std::memcpy(p, blk.getPtr(), size_t(alloc));
        Block view(p, alloc);
        std::string err;
        if(view.isEmpty()) return "raw view of a byte copy is empty";
        if(view.getAllocatedMemorySizeInByte() != alloc) return "raw view reports a different size";
        verifyAll(view, sizes, salt, err, "byte copy", std::make_index_sequence<NB>());
        if(!err.empty()) return err;
        // the view does not own the memory: writing through it changes the copy only
        Block view2(p, alloc, false); view2.initHeader();
        verifyAll(view2, sizes, salt, err, "byte copy (initHeader)", std::make_index_sequence<NB>());
        return err;
    }

    static std::string run(const FmmCase& c, hc::Stats& st){
        auto Q = [&](size_t i){ return i < c.queries.size() ? std::labs(c.queries[i]) : long(gf::splitmix(c.salt + i) % 100000); };
        auto genSizes = [&](size_t base){
            std::array<long, NB> s; long k = 0;
            (( s[size_t(k)] = (Kind<Subs>::kind == 0) ? 1 : [&]{
                    const long v = Q(base + size_t(k));
                    const long per = 64 / long(std::min<size_t>(64, sizeof(typename Kind<Subs>::Elem)));
                    switch(v % 6){ case 0: return 0L; case 1: return 1L; case 2: return std::max(0L, per * ((v / 6) % 9) - 1 + (v / 54) % 3);    // k*64/sizeof +- 1
                                   case 3: return (v / 6) % 40; case 4: return (v / 6) % 700; default: return (sizeof(typename Kind<Subs>::Elem) >= 1024) ? (v / 6) % 40 : (v / 6) % 10001; }
                }(), ++k), ...);
            return s;
        };
        std::array<long, NB> sizes = genSizes(0);
        std::unique_ptr<Block> blk(new Block(sizes));
        std::string e = checkState(*blk, sizes, c.salt, true);
        if(!e.empty()) return "after construction: " + e;
        const long nbOps = 1 + Q(20) % 6;
        bool shrunk = false, moved = false;
        for(long op = 0 ; op < nbOps ; ++op){
            const long what = Q(21 + size_t(op)) % 5;
            if(what == 0){
                // reset with new sizes: buffer reused when it is large enough
                const std::array<long, NB> ns = genSizes(30 + size_t(op) * 5);
                const long before = blk->getAllocatedMemorySizeInByte();
                blk->resetBlocksFromSizes(ns);
                if(blk->getAllocatedMemorySizeInByte() == before && expectedElements(ns) < expectedElements(sizes)) shrunk = true;
                sizes = ns;
                e = checkState(*blk, sizes, c.salt + uint64_t(op), true);
                if(!e.empty()) return "after resetBlocksFromSizes: " + e;
                // patterns now use salt+op: re-write with the case salt so that later comparisons are uniform
                e = checkState(*blk, sizes, c.salt, false);
                if(!e.empty()) return "after rewrite: " + e;
            }
            else if(what == 1){
                std::unique_ptr<Block> other(new Block(std::move(*blk)));
                if(!blk->isEmpty() || blk->getPtr() != nullptr) return "moved-from block still refers to the buffer";
                blk = std::move(other); moved = true;
                std::string err; verifyAll(*blk, sizes, c.salt, err, "move construction", std::make_index_sequence<NB>());
                if(!err.empty()) return err;
            }
            else if(what == 2){
                std::unique_ptr<Block> other(new Block(genSizes(60)));
                *other = std::move(*blk);
                if(!blk->isEmpty()) return "moved-from block not empty after move assignment";
                blk = std::move(other); moved = true;
                std::string err; verifyAll(*blk, sizes, c.salt, err, "move assignment", std::make_index_sequence<NB>());
                if(!err.empty()) return err;
            }
            else{
                e = checkByteCopy(*blk, sizes, c.salt, Q(70 + size_t(op)));
                if(!e.empty()) return e;
            }
        }
        e = checkByteCopy(*blk, sizes, c.salt, 0);
        if(!e.empty()) return e;
        if(shrunk) st.cls("buffer-reused-after-shrinking");
        if(moved) st.cls("moved");
        bool offAlign = false; { long k = 0; ((offAlign = offAlign || (Kind<Subs>::kind != 0 && (sizes[size_t(k)] * long(sizeof(typename Kind<Subs>::Elem))) % 64 != 0), ++k), ...); }
        if(NB >= 2 && offAlign) st.noteNontrivial(hc::hashCase(c), c);
        return "";
    }
};

using L0 = Layout<TbfMemoryVector<E1>>;
using L1 = Layout<TbfMemoryVector<E3>>;
using L2 = Layout<TbfMemoryScalar<E24>, TbfMemoryVector<E8>>;
using L3 = Layout<TbfMemoryScalar<E8>, TbfMemoryVector<E100>, TbfMemoryVector<long>, TbfMemoryMultiRVector<double, 3>>;
using L4 = Layout<TbfMemoryMultiRVector<E2, 4>>;
using L5 = Layout<TbfMemoryMultiVVector<E8, 3>, TbfMemoryVector<E24>>;
using L6 = Layout<TbfMemoryVector<E4096>, TbfMemoryScalar<E1>>;
using L7 = Layout<TbfMemoryMultiRVector<E64, 2>, TbfMemoryMultiVVector<E1, 5>, TbfMemoryVector<E128>>;
using L8 = Layout<TbfMemoryMultiRVector<float, 7>>;
using L9 = Layout<TbfMemoryScalar<E100>, TbfMemoryScalar<E3>, TbfMemoryVector<E2>, TbfMemoryMultiVVector<E2, 2>>;
using L10 = Layout<TbfMemoryMultiRVector<uint64_t, 3>, TbfMemoryVector<E3>, TbfMemoryMultiRVector<E128, 1>>;
using L11 = Layout<TbfMemoryVector<E24>, TbfMemoryVector<E1>, TbfMemoryVector<E64>, TbfMemoryVector<E2>>;
// sub-blocks whose alignment template arguments differ (all >= 8 so that every element keeps its natural alignment): the offset of a
// sub-block is then not a multiple of the alignment of its predecessor / successor
using L12 = Layout<TbfMemoryScalar<E24, 8>, TbfMemoryVector<double, 64>>;
using L13 = Layout<TbfMemoryVector<E3, 8>, TbfMemoryMultiRVector<double, 3, 32>, TbfMemoryVector<E24, 16>, TbfMemoryScalar<E8, 128>>;
using L14 = Layout<TbfMemoryMultiVVector<E2, 2, 16>, TbfMemoryVector<E100, 8>, TbfMemoryVector<long, 64>>;
using L15 = Layout<TbfMemoryVector<E1, 128>, TbfMemoryVector<E8, 8>, TbfMemoryMultiRVector<float, 7, 64>, TbfMemoryScalar<E3, 16>>;
constexpr int NbLayouts = 16;

std::string propMem(const FmmCase& c){
    hc::Stats& st = hc::stats();
    const int l = ((c.variant % NbLayouts) + NbLayouts) % NbLayouts;
    st.cls("layout=" + std::to_string(l));
    switch(l){
    case 0: return L0::run(c, st); case 1: return L1::run(c, st); case 2: return L2::run(c, st); case 3: return L3::run(c, st);
    case 4: return L4::run(c, st); case 5: return L5::run(c, st); case 6: return L6::run(c, st); case 7: return L7::run(c, st);
    case 8: return L8::run(c, st); case 9: return L9::run(c, st); case 10: return L10::run(c, st); case 11: return L11::run(c, st);
    case 12: return L12::run(c, st); case 13: return L13::run(c, st); case 14: return L14::run(c, st); default: return L15::run(c, st);
    }
}

} // namespace

int main(int argc, char** argv){
    hc::Args a = hc::parseArgs(argc, argv);
    if(a.prop.empty()){ std::cerr << "usage: --prop C14 ...\n"; return 2; }
    pbt::GenCfg g; g.dim = 3; g.queries = true; g.maxN = 1; g.maxH = 1; g.genericBoxes = false; g.autoBlock = false; g.variants = NbLayouts;
    return hc::runMain(a, g, [&](const FmmCase& c){ FmmCase w = c; w.pos.clear(); return propMem(w); });
}
